#!/bin/bash
# selftest_det.sh <prop> [runs]: determinism self-test: the same (seed, run) must give the same
# event-log digest in every process, at GOMAXPROCS 1/4/16, idle or under load.
set -u
prop=$1; runs=${2:-150}
cd "$(dirname "$(readlink -f "$0")")"
d=$(mktemp -d /tmp/verif-det.XXXXXX)
./vcheck.sh $prop build $d >/dev/null 2>&1 || { echo "build failed"; exit 2; }
export VERIF_RW_DIR=$d/rw
for pass in a b c; do
  for w in $(seq 0 15); do
    gmp=$(( w % 3 == 0 ? 1 : (w % 3 == 1 ? 4 : 16) ))
    [ $pass = c ] && gmp=2
    ( GOMAXPROCS=$gmp $d/worker -prop $prop -first $w -stride 16 -count $runs -deadline 300s -digests -replaydir $d/rp -out $d/out.$pass.$w 2>&1 | grep DIGEST > $d/dig.$pass.$w ) &
  done
  wait
done
cat $d/dig.a.* | sort > $d/A; cat $d/dig.b.* | sort > $d/B; cat $d/dig.c.* | sort > $d/C
echo "digests: $(wc -l < $d/A) per pass; a-b differences: $(diff $d/A $d/B | grep -c '^<'); a-c differences: $(diff $d/A $d/C | grep -c '^<')"
diff $d/A $d/B | head -5; diff $d/A $d/C | head -5
rm -rf $d
