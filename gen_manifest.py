#!/usr/bin/env python3
"""Regenerates MANIFEST.json from the tables below (keeps it schema-valid)."""
import json
NA = {
 "C01": "program-to-output equivalence with Go: a pure function of the program; no schedule, clock, I/O fault or interleaving - differential testing territory, not simulation",
 "C02": "native x86-64 vs wasm behaviour of a program: pure translation + execution, nothing to schedule or fault",
 "C03": "wat2c translation validation: pure module-to-text function",
 "C04": "wat2wasm vs reference assembler: pure text-to-bytes function",
 "C05": "WAT printer round trip: pure",
 "C06": "dead-code stripping preserves behaviour: pure module-to-module function",
 "C07": "formatter idempotence / AST preservation: pure text-to-text function",
 "C08": "front ends never crash or hang on arbitrary bytes: 'time bounded by input size' involves no clock or timer in the code - fuzzing territory",
 "C09": ".wz vs .wa front-end equivalence: pure",
 "C14": "std library ports agree with Go: pure functions of their arguments",
 "C15": "constant folding vs run-time evaluation: pure",
 "C16": "well-typed programs compile to valid wasm: pure",
 "C17": "instruction encoders vs disassemblers: pure codec",
 "C18": "hi/lo relocation splitting: an arithmetic identity (SMT / exhaustive question)",
 "C19": "LEB128 round trip: pure codec on byte slices, no stream consumer that can stall",
 "C20": "emulator single-step semantics: pure state-to-state function",
 "C22": "diff/apply round trip: pure",
 "C23": "source positions and FileSet serialisation: pure (the FileSet mutex is not what the property is about)",
 "C24": "build-tag expression evaluation: pure, configurations are just inputs",
 "C29": "wa run exit status: a function of the program alone - nothing to schedule or fault",
 "C30": "wa test verdicts: a function of the test package alone",
 "C31": "embedded engine vs independent engine: differential execution of a pure function",
}
PENDING = "claimed in DESIGN.md but its engine is not built yet in this commit; listed here until its check exists (not a judgement of applicability)"
CHECKS = {
 "C10": dict(level="exploration", technique="deterministic simulation of the allocator's environment: both allocator WAT copies run on wazero with memory.grow gated by the simulator (refused at seeded operations), a simulated client that fills every payload byte, seeded malloc/free histories over a configuration swarm; full heap-layout oracle (tiling, free-list membership, overlap, client patterns, justified failure) after every operation; loop-fuel step bound; shrunk replayable tapes",
   text="Seeded search over configurations and malloc/free histories with injected grow refusals. After every operation the harness re-derives the complete heap layout from linear memory: blocks tile [heap_base+48, heap_ptr) exactly, every tile is live or on exactly one free list, fixed-list counts match, live blocks are aligned, inside heap and memory, large enough, non-overlapping and still hold the client's bytes; a 0 result must be justified (no fitting block on the class list or the general list, no room below heap_top, and growing refused by the environment or impossible within the maximum). Evidence, not proof.",
   note="trusts watutil.Wat2Wasm and the vendored wazero to execute the allocator faithfully; the grow seam is a text substitution of memory.grow by a wasm wrapper that asks the host and then executes the real instruction; heaps up to 64 pages", ref="DESIGN.md section 4 C10"),
 "C11": dict(level="exploration", technique="deterministic simulation of the allocator under generated Wa driver programs and the std packages' own tests: $runtime.malloc/$runtime.free/$runtime.HeapAlloc of the compiler's WAT output are routed to a simulated allocator that injects dirty fresh memory, poison on free, immediate reuse, quarantine and scattered placement from the seed; seeded operation histories; monitors (free of live blocks only, zeroed allocations, poison intact) plus differential check against the fault-free run; shrunk replayable tapes",
   text="Seeded search over generated driver programs (compiled by the real pipeline) and operation histories. Each history runs on fresh instances with the plain allocator and under an injected allocator fault mode; a free of a non-live block, a HeapAlloc result that is not zero, a write to quarantined memory, or any step whose result differs between the two runs is a violation. This is the property's own formulation (output unchanged when freed memory is overwritten on release). Evidence, not proof.",
   note="programs are the structured drivers of harness/wagen (typed slots, ~240-290 operations each) and the test functions of the std packages, not arbitrary programs; an identical trap in both modes is harness trouble (exit 2), not a C11 violation; trusts Wat2Wasm and wazero to execute the rewritten module", ref="DESIGN.md section 4 C11"),
 "C12": dict(level="exploration", technique="conservation check over the simulated allocator's malloc/free history: seeded acyclic loop bodies of generated driver programs are iterated 8..1024 times by exported calls; live block count and bytes after every iteration (host-side accounting through the WAT allocator seam) must be constant after warm-up and the real allocator's heap extent must stop growing; shrunk replayable tapes",
   text="Seeded search over generated drivers and loop bodies (and, one run in four, loop bodies of map operations on the C13 map drivers of every key kind followed by 'discard every map'); the oracle is exact equality of live blocks and live bytes at the end of every iteration (the reachable state is identical by construction) plus a no-persistent-growth check of the real heap extent. No fault or schedule is injected: this property has no such dimension, the simulator contributes the observation point and the seeded histories. Evidence, not proof.",
   note="loop bodies are sequences of driver operations; acyclicity is guaranteed by the generator's level order and rank guard, not checked at run time", ref="DESIGN.md section 4 C12"),
 "C13": dict(level="exploration", technique="deterministic simulation of the allocator under compiled Wa map drivers: generated drivers per key kind x value kind compiled by the real pipeline, seeded operation histories checked step by step against a Go map reference model, executed under plain and under seeded allocator fault modes (poison on free, dirty fresh memory, immediate reuse, quarantine, scattered placement) with double-free / zeroing / write-after-free monitors; shrunk replayable tapes",
   text="Model-based seeded search: every put/overwrite/get/comma-ok/delete/len/range/alias result of the real runtime map (23 key kinds - small and range-spanning integers, valid, prefix-related and invalid-UTF-8 strings, f32/f64 floats, bools, structs of one and of four field kinds, separately allocated and same-allocation pointers, interfaces with mixed dynamic types - x 5 value kinds; operations include nested ranges and ranges that insert, delete the visited key or delete other keys while walking, judged by Go's rules) is compared with a Go map model, on histories with ascending/descending/delete-in-order/churn phases and key pools from 2 to 2000, first on the plain allocator and again under an injected allocator fault mode that makes stale tree-node pointers visible. Evidence, not proof.",
   note="trusts the Go model and the key/value encodings mirrored in Go; NaN keys excluded; iteration order not compared; the allocator seam is a WAT text rewrite executed by the repository's own assembler and wazero", ref="DESIGN.md section 4 C13"),
 "C21": dict(level="exploration", technique="deterministic whole-system simulation of the language server inside a testing/synctest bubble: real LSPServer.Run, handler chain, jsonrpc2 stream/connection and fakenet feeders; simulated editor, blocking stdin pipe (split deliveries, short reads, cut inside a message) and a seeded token scheduler that decides at every statement of the lsp/jsonrpc2/fakenet packages (AST-inserted yields, simulator-aware mutexes, wrapped go statements) which goroutine runs next; oracle = editor model equality at drain points; shrunk replayable tapes",
   text="Seeded search over editing sessions (full/incremental/multi-change/invalid edits over Unicode text with astral characters and CRLF, .wa and .wz documents, requests and cancels in flight), delivery schedules and goroutine interleavings of the real server. At every drain point and at the end, the server's text of each open document must equal the editor model's after all completely delivered notifications; invalid edits and half-delivered notifications must leave it unchanged; Run must return after EOF; no panic or deadlock. 3200 runs were replayed three times across GOMAXPROCS 1/2/4/16 under load with identical event-log digests. Evidence, not proof.",
   note="interleavings are explored at statement granularity in the rewritten packages; code that is not rewritten runs atomically; positions the LSP specification leaves ambiguous are not generated", ref="DESIGN.md section 4 C21"),
 "C25": dict(level="fault_enumeration", technique="deterministic simulation of the byte-stream transport: seeded packet sequences through the real SLIP/SLIPMUX writer and reader, complete enumeration of every single transient-empty-read position x kind per stream and of every single failing Write call of the sender (retry / give up), plus seeded multi-stall / bounded-chunk schedules; shrunk replayable tapes",
   text="Every generated stream (written through one writer, as a sender does) is read back fault-free and under every single stall position and kind (complete for one fault per stream up to the size limit), x2/x3 repeated stalls and stall pairs, and after every single failing Write call of the sender (retry or give up: exactly the packets whose WritePacket returned nil must arrive), then under seeded multi-fault schedules; payloads and frame types must equal what was written and every packet must be delivered once the bytes are available. SLIPMUX streams also carry line-noise frames with a reserved type (0x00, END, ESC): a reader may drop such a frame or deliver it as written, and must never deliver a packet that was not written. Streams are sampled, the single-fault space per stream is enumerated.",
   note="trusts the harness consumer loop (concatenate isPrefix fragments) as the documented reader protocol; transient reads limited to (0,nil),(0,EOF),(0,timeout); no concurrent writers", ref="DESIGN.md section 4 C25"),
 "C26": dict(level="fault_enumeration", technique="deterministic simulation of the byte stream under bufio: seeded messages of every registered type (fields filled by reflection from the tape) through the real DAP writer/reader/decoder, complete enumeration of every single split offset and every cut offset per stream, bounded-chunk reads, seeded short-read/empty-burst/cut schedules; shrunk replayable tapes",
   text="Every generated stream is read back fault-free, with all reads bounded to 1/2/3/7 bytes, under every single split position and every cut offset (complete per stream up to the size limit), and under seeded multi-fault schedules. Decoded messages must have the written dynamic type and marshal to identical JSON; after a cut the reader must return the completely delivered messages and then an error, never a message that was not written. The constructor tables are also checked against the schema naming convention. One run in 24 is a size-edge run: an output event whose body is exactly 2^k-1, 2^k or 2^k+1 bytes (4 KiB to 8 MiB) followed by a small one; the reader may refuse a body only with an error whose stated limit is really below the body length.",
   note="equality is JSON-level (encoding/json on both sides) plus dynamic type; protocol defaults pre-set by a constructor are treated as the meaning of an omitted field; streams above the limit are only covered by the seeded schedules", ref="DESIGN.md section 4 C26"),
 "C27": dict(level="exploration", technique="deterministic simulation of Go map iteration order inside the compiler: every range-over-map on the compile path (75 sites in 49 files, AST-located, text-spliced copies injected with go build -overlay) yields its keys in an order chosen by the seeded schedule (reverse, rotate, swap, shuffle, per site or everywhere); WAT and wasm hashes compared between canonical and permuted orders, between repeats in one process and across worker processes; tape shrinking isolates the responsible range site",
   text="Seeded search over programs of the repository's corpus, configurations and map-order schedules. Any permutation is a legal Go execution, so a hash difference between the canonical and a permuted order is a real nondeterminism of the compiler; the minimised replay names the source position of the range statement whose order reaches the output. A tape-drawn history probe (compile P, Q, P with the canonical order), repeat compiles in one process and baselines across 16 processes cover state leaking between compiles and sources outside the seam. Evidence, not proof.",
   note="only map iteration order is behind the seam; addresses, goroutines and time are covered by repeat/cross-process comparison only; pointer/interface keys get first-store serial numbers as canonical order (nonreplayable_keys probe must be 0)", ref="DESIGN.md section 4 C27"),
 "C28": dict(level="exploration", technique="deterministic simulation of concurrent API callers: every scenario runs in its own cold OS process under a token scheduler with seeded PCT pre-emption points over ~4600 AST-inserted yield points (every statement touching a package-level variable and every function entry on the API path, 300 rewritten files), simulator-aware Mutex/RWMutex/Once, canonical map order for exact replay, and a vector-clock happens-before monitor over every map access; oracle = each call's result equals its solo result in a cold process; shrunk replayable tapes",
   text="Seeded search over caller/call mixes (build, run, format, syntax detection on well-typed, ill-typed and unparsable .wa/.wz programs, with default configurations or clones of one shared base configuration with different targets) and pre-emption placements: uniform over all yields, over the 'interesting' yields (writes of package-level variables, lock boundaries), per interesting site, and two systematic sweeps enumerated by run index: lock-window sweeps and shared-storage sweeps (pre-emption right after a call that received or handed out package-level storage, the other callers run to completion in between). Configurations include different targets and word-size/alignment settings; sources include CRLF line endings. A call whose result differs from the same call run alone, a panic, a scheduler-detected deadlock, a dead child process, or two happens-before-unordered accesses to one Go map (one a write) by different callers is a violation. The sequential run of each scenario in one process is checked against the solo results as well. Evidence, not proof.",
   note="interleavings at yield granularity (statements touching package-level variables, function entries, lock boundaries, and the point right after a call that receives package-level storage by reference); the vendored wazero engine and the standard library run atomically; memory-model races on non-map data that change no result are out of reach and are not reported", ref="DESIGN.md section 4 C28"),
}
ORDER = ["C10","C11","C12","C13","C21","C25","C26","C27","C28"]
m = {
 "version": 1,
 "setup_cmd": "./setup.sh",
 "hooks": {
  "guard": "none - all instrumentation is injected at build time with `go build -overlay` from files under /verif/overlay and AST-rewritten copies; nothing under /repo is modified by the checks",
  "enable": "./vcheck.sh <id> <tier> builds the worker with go1.26.8 build -overlay <generated overlay.json> against /repo's working tree",
  "baseline_off_cmd": "cd /repo && go test -mod=mod -json -vet=off -count=1 -timeout 25m ./...",
  "source_commits": [],
  "add_only": True,
 },
 "engines": [
  {"name": "vcheck", "path": "harness/cmd/vcheck", "serves_properties": [p for p in ORDER if p in CHECKS], "kind_free_text": "coordinator: overlay build from /repo, 16 worker processes over disjoint seeded run indices, tape shrinking, replay confirmation in a fresh process, evidence writer"},
 ],
 "checks": [],
 "not_applicable": [],
 "notes": "Deterministic simulation with fault injection. One integer (VERIF_SEED) decides every run through the choice tape (harness/tape). fix: commits in /repo are recorded in known_findings.json.",
}
for p in ORDER:
    if p in CHECKS:
        c = CHECKS[p]
        m["checks"].append({
          "property_id": p,
          "quick_cmd": f"./vcheck.sh {p} quick",
          "thorough_cmd": f"./vcheck.sh {p} thorough",
          "evidence_file": f"/verif/evidence/{p}.json",
          "replay_cmd_template": f"./vcheck.sh {p} replay {{path}}",
          "engine": "vcheck",
          "level_claimed": {"category": c["level"], "text": c["text"], "design_ref": c["ref"]},
          "level_note": c["note"],
          "technique": c["technique"],
        })
    else:
        m["not_applicable"].append({"property_id": p, "reason": PENDING})
for p in sorted(NA):
    m["not_applicable"].append({"property_id": p, "reason": NA[p]})
json.dump(m, open("/verif/MANIFEST.json","w"), indent=1)
print("checks:", [c["property_id"] for c in m["checks"]], "na:", len(m["not_applicable"]))
