package main

import (
	"fmt"
	"os"
	"strconv"

	"verif/harness/tape"
	"verif/harness/wagen"
	"wa-lang.org/wa/verifbridge/wab"
)

type host struct{ mallocs, frees int }

func (h *host) PreMalloc(mem []byte, size uint32) uint32     { h.mallocs++; return 0 }
func (h *host) PostMalloc(mem []byte, ptr, size uint32)      {}
func (h *host) PreFree(mem []byte, ptr uint32) uint32        { h.frees++; return 1 }
func (h *host) PostHeapAlloc(mem []byte, ptr, nbytes uint32) {}

func main() {
	from, _ := strconv.Atoi(os.Args[1])
	to, _ := strconv.Atoi(os.Args[2])
	for i := from; i < to; i++ {
		d := wagen.Generate(tape.NewGen(7, uint64(i)))
		os.WriteFile("/tmp/w/gen.wa", []byte(d.Source), 0o644)
		wat, err := wab.BuildWat("gen.wa", d.Source)
		if err != nil {
			fmt.Println(i, "BUILD ERR", err)
			os.Exit(1)
		}
		wat2, err := wab.Instrument(wat)
		if err != nil {
			fmt.Println(i, "INSTR ERR", err)
			os.Exit(1)
		}
		wasm, err := wab.Wat2Wasm(wat2)
		if err != nil {
			fmt.Println(i, "WAT2WASM ERR", err)
			os.Exit(1)
		}
		c, err := wab.Compile(wasm)
		if err != nil {
			fmt.Println(i, "COMPILE ERR", err)
			os.Exit(1)
		}
		h := &host{}
		in, err := c.Instantiate(h)
		if err != nil {
			fmt.Println(i, "INST ERR", err)
			os.Exit(1)
		}
		in.Call("reset")
		t := tape.NewGen(9, uint64(i))
		for j := 0; j < 3000; j++ {
			op := t.Draw(d.NOps)
			a, b, cc := t.Draw(d.Slots), t.Draw(64), t.Draw(64)
			_, err := in.Call("step", uint64(op), uint64(a), uint64(b), uint64(cc))
			if err != nil {
				fmt.Printf("%d step %d op=%d (%s) a=%d b=%d c=%d: %v\n", i, j, op, d.OpDesc[op], a, b, cc, err)
				os.Exit(1)
			}
		}
		in.Call("reset")
		fmt.Println(i, "ok ops", d.NOps, "kinds", len(d.Kinds), "mallocs", h.mallocs, "frees", h.frees)
		in.Close()
		c.Close()
	}
}
