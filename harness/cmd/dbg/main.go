package main

import (
	"fmt"
	"os"
	"strconv"

	"verif/harness/allocsim"
	"verif/harness/tape"
	"verif/harness/wagen"
	"wa-lang.org/wa/verifbridge/wab"
)

func main() {
	from, _ := strconv.Atoi(os.Args[1])
	to, _ := strconv.Atoi(os.Args[2])
	for i := from; i < to; i++ {
		d := wagen.Generate(tape.NewGen(7, uint64(i)))
		os.WriteFile("/tmp/w/gen.wa", []byte(d.Source), 0o644)
		c, err := wab.Build("gen.wa", d.Source)
		if err != nil {
			fmt.Println(i, "BUILD ERR", err)
			os.Exit(1)
		}
		h := allocsim.New(allocsim.Plain, nil, c.HeapBase, 0)
		in, err := c.Instantiate(h)
		if err != nil {
			fmt.Println(i, "INST ERR", err)
			os.Exit(1)
		}
		in.Call("reset")
		t := tape.NewGen(9, uint64(i))
		for j := 0; j < 4000; j++ {
			op := t.Draw(d.NOps)
			a, b, cc := t.Draw(d.Slots), t.Draw(64), t.Draw(64)
			_, err := in.Call("step", uint64(op), uint64(a), uint64(b), uint64(cc))
			if err != nil {
				fmt.Printf("%d step %d op=%d (%s) a=%d b=%d c=%d: %v\n", i, j, op, d.OpDesc[op], a, b, cc, err)
				os.Exit(1)
			}
		}
		in.Call("reset")
		fmt.Println(i, "ok ops", d.NOps, "kinds", len(d.Kinds), "mallocs", h.Mallocs, "frees", h.Frees, "live", len(h.Live), h.Violation)
		in.Close()
		c.Close()
	}
}
