package main

import (
	"encoding/binary"
	"fmt"

	"wa-lang.org/wa/verifbridge/mallocb"
)

func main() {
	cfg := mallocb.Config{MemoryPages: 1, MemoryPagesMax: 10, StackPtr: 32768, HeapBase: 40960, HeapLFixedCap: 100}
	h, err := mallocb.New(0, cfg, nil)
	if err != nil {
		panic(err)
	}
	p, err := h.Malloc(65512)
	fmt.Println(p, err, h.GrowCalls, h.GrowOK, h.GrowFailed)
	m := h.Mem()
	fmt.Println(len(m), h.Global("__heap_ptr"), h.Global("__heap_top"))
	for a := 40960; a < 41032; a += 4 {
		fmt.Println(a, int32(binary.LittleEndian.Uint32(m[a:])))
	}
}
