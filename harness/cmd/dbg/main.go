package main

import (
	"crypto/sha256"
	"fmt"
	"os"

	"wa-lang.org/wa/verifbridge/compb"
)

func main() {
	for _, p := range os.Args[2:] {
		wat, wasm, err := compb.Compile(p, os.Args[1], false)
		if err != nil {
			fmt.Printf("ERR %s %.100v\n", p, err)
			continue
		}
		fmt.Printf("OK %s %d %d %x\n", p, len(wat), len(wasm), sha256.Sum256(wat))
	}
}
