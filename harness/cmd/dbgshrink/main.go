// dbgshrink: developer aid: minimise a C11/C12/C13 replay file further with a large budget.
package main

import (
	"encoding/json"
	"fmt"
	"os"
	"strconv"

	"verif/harness/engines/c11"
	"verif/harness/sim"
	"verif/harness/tape"
)

func main() {
	b, _ := os.ReadFile(os.Args[1])
	var rp sim.Replay
	json.Unmarshal(b, &rp)
	budget, _ := strconv.Atoi(os.Args[2])
	if budget == 0 {
		c11.DebugModes(rp.Seed, rp.Run, rp.Tier, rp.Tape)
		return
	}
	eng := c11.New11()
	eng.Setup(rp.Tier)
	eng.(interface{ SetRun(seed, run uint64) }).SetRun(rp.Seed, rp.Run)
	min, used := tape.Shrink(rp.Tape, func(c []uint32) bool {
		r := eng.Run(tape.NewReplay(c), false)
		return r.Violation != nil && r.Violation.Class == rp.Class
	}, budget, 6)
	r := eng.Run(tape.NewReplay(min), true)
	fmt.Println("used", used, "tape len", len(rp.Tape), "->", len(min))
	if r.Violation != nil {
		fmt.Println(r.Violation.Signature)
		fmt.Println(r.Violation.Detail)
	}
	out, _ := json.MarshalIndent(r.Sample, "", " ")
	fmt.Println(string(out))
	rp.Tape = min
	nb, _ := json.MarshalIndent(rp, "", " ")
	os.WriteFile(os.Args[1]+".min", nb, 0o644)
}
