// worker-c27: built with the simrewrite "map" pass applied to the compile path.
package main

import (
	"verif/harness/engines/c27"
	"verif/harness/sim"
)

func main() {
	sim.WorkerMain(map[string]func() sim.Engine{
		"C27": c27.New,
	})
}
