// dbgstd: developer probe for the std-test-package workload.
package main

import (
	"fmt"
	"os"
	"time"

	"verif/harness/allocsim"
	"verif/harness/tape"
	"wa-lang.org/wa/verifbridge/wab"
)

func main() {
	pkgs := wab.StdTestPackages()
	if len(os.Args) > 1 {
		pkgs = os.Args[1:]
	}
	for _, p := range pkgs {
		t0 := time.Now()
		var tp *wab.TestPackage
		var err error
		if len(p) > 0 && p[0] == '/' {
			tp, err = wab.BuildProgram(p)
		} else {
			tp, err = wab.BuildTestPackage(p)
		}
		if err != nil {
			fmt.Println(p, "BUILD ERR", err)
			continue
		}
		if tp == nil {
			fmt.Println(p, "no tests")
			continue
		}
		fmt.Printf("%s: %d tests, build %v heapbase %d\n", p, len(tp.Tests), time.Since(t0), tp.HeapBase)
		for _, tn := range tp.Tests {
			var outs []string
			for m := allocsim.Plain; m < allocsim.NModes; m++ {
				t1 := time.Now()
				h := allocsim.New(m, tape.NewGen(1, 2), tp.HeapBase, 0)
				so, e := tp.Run(tn, h)
				mem := tp.Mem()
				h.CheckQuarantine(mem)
				outs = append(outs, so+"|"+e)
				st := "same"
				if outs[len(outs)-1] != outs[0] {
					st = "DIFF"
				}
				fmt.Printf("  %-40s %-14s %8v mallocs=%d frees=%d live=%d out=%dB err=%q %s viol=%q trouble=%q\n", tn, allocsim.ModeNames[m], time.Since(t1).Round(time.Millisecond), h.Mallocs, h.Frees, len(h.Live), len(so), e, st, h.Violation, h.Trouble)
			}
		}
		tp.Close()
	}
}
