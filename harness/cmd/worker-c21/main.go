// worker-c21: built with the simrewrite "sched" pass applied to the LSP
// packages. The simulation runs inside testing/synctest bubbles, which need a
// *testing.T: the worker loop therefore runs as the single "test" of
// testing.Main.
package main

import (
	"testing"

	"verif/harness/engines/c21"
	"verif/harness/sim"
)

func main() {
	testing.Init()
	testing.Main(func(pat, str string) (bool, error) { return true, nil },
		[]testing.InternalTest{{Name: "sim", F: func(t *testing.T) {
			c21.T = t
			sim.WorkerMain(map[string]func() sim.Engine{"C21": c21.New})
		}}}, nil, nil)
}
