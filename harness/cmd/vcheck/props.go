package main

import "time"

var commonAssume = []string{
	"instrumentation is injected with go build -overlay from /repo's working tree; /repo itself is not modified",
	"harness built with go1.26.8; repository code keeps its go 1.17 language version (separate module)",
	"a clean batch is evidence from seeded search, not a proof",
}

var props = map[string]propCfg{
	"C25": {
		Flavor: "worker-plain", Level: "fault_enumeration",
		QuickRuns: 1 << 30, QuickDL: 25 * time.Second, ThorDL: 10 * time.Minute, ThorSeeds: 5,
		Rule:      "a run = one tape-generated packet sequence (SLIP or SLIPMUX, bytes biased to END/ESC/ESC_END/ESC_ESC) written by the real writer, then read back (a) fault-free and strict, (b) once per (wire offset x stall kind) with a single transient empty read injected there - complete for streams up to the stated limit, (c) under 1..3 tape-drawn multi-stall/bounded-chunk schedules. evaluations = runs; sim_steps = reader executions. Non-trivial = at least one fault-injected execution; distinct = distinct event-log digests (wire bytes + schedule outcomes).",
		Real:      []string{"slip.Writer", "slip.Reader", "slip.SlipMuxWriter", "slip.SlipMuxReader", "slip FCS16"},
		Stub:      []string{"byte stream transport (sim.Stream)", "consumer loop concatenating isPrefix fragments"},
		Assume:    append([]string{"transient empty reads are (0,nil), (0,io.EOF) and, for the raw reader only, (0,timeout error); (n>0,err!=nil) results are not produced", "single-threaded: concurrent writers are not simulated"}, commonAssume...),
		StateRule: "none (stateless codec); distinct digests are the reach measure",
	},
	"C26": {
		Flavor: "worker-plain", Level: "fault_enumeration",
		QuickRuns: 1 << 30, QuickDL: 40 * time.Second, ThorDL: 10 * time.Minute, ThorSeeds: 5,
		Rule:      "a run = 1..8 messages, each of a tape-chosen registered type (all entries of the request/response/event constructor tables plus ErrorResponse) with fields filled by reflection from the tape, written back-to-back by WriteProtocolMessage, then read through bufio+ReadProtocolMessage (a) fault-free, (b) with every read bounded to 1/2/3/7 bytes, (c) once per split offset (two reads) and once per cut offset - complete per stream up to the stated limit, (d) under 1..3 tape-drawn short-read / empty-read-burst / cut schedules. evaluations = runs; sim_steps = reader executions; distinct = distinct event-log digests (message bytes + schedule outcomes); all runs are non-trivial (faults are injected in every run).",
		Real:      []string{"dap.WriteProtocolMessage", "dap.ReadProtocolMessage", "dap.ReadBaseMessage", "dap.DecodeProtocolMessage", "schematypes constructor tables", "bufio.Reader", "encoding/json"},
		Stub:      []string{"byte stream under bufio (sim.Stream)"},
		Assume:    append([]string{"equality is json.Marshal(decoded)==json.Marshal(original) plus identical dynamic type; interface{} fields hold JSON-normalised values", "(0,nil) bursts stay below bufio's 100-empty-read limit; (0,io.EOF) is only injected as a permanent cut"}, commonAssume...),
		StateRule: "none (stateless codec)",
	},
	"C10": {
		Flavor: "worker-plain", Level: "exploration",
		QuickRuns: 1 << 30, QuickDL: 45 * time.Second, ThorDL: 30 * time.Minute, ThorSeeds: 5,
		Rule:      "a run = one tape-drawn configuration (allocator copy, initial/max pages, stack pointer, heap base incl. bases a few bytes below the end of memory, fixed-list capacity incl. 0) and 1..400 malloc/free operations (sizes biased to class boundaries, powers of two, page multiples; frees by LIFO/FIFO/random/address-adjacent policy) with memory.grow refused by the simulator at tape-chosen operations and the client filling every byte of every block; the full heap layout is re-derived from linear memory and checked after every operation. evaluations = runs, sim_steps = operations; non-trivial = at least 2 operations; distinct = distinct event-log digests.",
		Real:      []string{"internal/waroot/malloc/malloc.wat (embedded template)", "waroot/src/runtime/heap_malloc.wat.ws (embedded std FS)", "watutil.Wat2Wasm", "vendored wazero"},
		Stub:      []string{"memory.grow (host function that really grows or refuses)", "the client (fills payloads, frees live blocks only)", "loop fuel counter inserted at every WAT loop header (deterministic step bound)", "module wrapper for the runtime copy"},
		Assume:    append([]string{"heap sizes up to 64 pages; requests up to the configured maximum memory (2^30-byte requests are not exercised in this tier)", "an exact fit below heap_top that the allocator treats conservatively (grows) is not demanded"}, commonAssume...),
		StateRule: "abstract allocator state = (bucketed lengths of l24/l32/l48/l80, bucketed general-list length, bucketed live count, memory pages, fixed capacity)",
	},
	"C13": {
		Flavor: "worker-plain", Level: "exploration",
		QuickRuns: 1 << 30, QuickDL: 50 * time.Second, ThorDL: 30 * time.Minute, ThorSeeds: 5,
		Rule:      "a run = one generated map driver (key kind x value kind, compiled by the real compiler, chosen per block of runs) and one tape-drawn history of put/overwrite/get/comma-ok/delete/len/range/range-with-delete/fresh/alias operations over 3 map slots and a key pool of 2..2000 (with ascending, descending, delete-in-order and churn phases), executed twice on fresh instances: with the plain allocator and under a tape-drawn allocator fault mode (poison on free + dirty fresh memory on the real allocator, host allocator with immediate reuse, quarantine, or scattered placement); every result is compared with a Go map model. Non-trivial = the run freed at least one block under the fault mode; distinct = distinct event-log digests.",
		Real:      []string{"Wa compiler pipeline (loader, type checker, SSA, WAT backend)", "waroot/src/runtime/map.wa", "waroot/src/runtime/interface.wa", "reference-counting runtime heap.wat.ws", "watutil.Wat2Wasm", "vendored wazero", "real allocator in plain and wrap_poison modes"},
		Stub:      []string{"$runtime.malloc/$runtime.free seam (WAT text rewrite to host functions)", "host allocator in sim_* modes", "loop fuel counter", "initial memory size (256 pages)"},
		Assume:    append([]string{"floating-point keys exclude NaN", "range order is not compared", "range-with-delete deletes only the key being visited: every key present at the start of the loop must still be visited exactly once"}, commonAssume...),
		StateRule: "(key kind, value kind, key pool, allocator mode, log2 history length)",
	},
	"C11": {
		Flavor: "worker-plain", Level: "exploration",
		QuickRuns: 1 << 30, QuickDL: 50 * time.Second, ThorDL: 30 * time.Minute, ThorSeeds: 5,
		Rule:      "a run = one generated driver program (typed slot arrays of ints, strings, slices, maps, linked structs, closures, interface values, struct values; one exported step function with 100-170 operations: copy, clear, pass through calls and multiple results, scope exit, defer, append, reslice, element/field store and load, box, type-assert, capture, call; chosen per block of runs and compiled by the real compiler) and one tape-drawn history of 1..300 (thorough 1500) operations, executed on fresh instances with the plain allocator and under a tape-drawn allocator fault mode (wrap_poison = real allocator with dirty fresh memory and poison on free; sim_lifo = immediate reuse; sim_quarantine = freed blocks must keep the poison; sim_scatter = tape-chosen placement). Oracles: every free is of a live block, HeapAlloc results read zero, quarantined blocks stay poisoned, and every step returns the same value with and without the fault. Non-trivial = at least one block was freed under the fault mode; distinct = distinct event-log digests.",
		Real:      []string{"Wa compiler pipeline (loader, type checker, SSA, WAT backend retain/release emission)", "reference-counting runtime heap.wat.ws", "runtime map.wa / string.wa / interface.wa", "watutil.Wat2Wasm", "vendored wazero", "real allocator in plain and wrap_poison modes"},
		Stub:      []string{"$runtime.malloc/$runtime.free/$runtime.HeapAlloc seam (WAT text rewrite to host functions)", "host allocator in sim_* modes", "loop fuel counter", "initial memory size (256 pages)"},
		Assume:    append([]string{"programs are the structured drivers of harness/wagen, not arbitrary programs of the C01 subset", "an identical trap in both modes is reported as harness trouble, not as a C11 violation"}, commonAssume...),
		StateRule: "(driver, allocator mode)",
	},
	"C12": {
		Flavor: "worker-plain", Level: "exploration",
		QuickRuns: 1 << 30, QuickDL: 50 * time.Second, ThorDL: 20 * time.Minute, ThorSeeds: 5,
		Rule:      "a run = one generated driver (as for C11; references only point downward in a level order, Node.next only to strictly smaller rank, so no operation can build a cycle) and a tape-drawn loop body of 1..40 operations followed by 'drop every slot', iterated 8, 64, 256 (thorough: up to 1024) times by exported calls; the host-side malloc/free accounting gives the number and bytes of live blocks after every iteration; after 2 warm-up iterations they must be identical for every iteration, and the real allocator's heap extent must not grow across three consecutive checkpoints. No fault is injected (conservation check). Non-trivial = the body freed at least one block; distinct = distinct event-log digests.",
		Real:      []string{"Wa compiler pipeline", "reference-counting runtime", "runtime map.wa / string.wa", "real allocator", "watutil.Wat2Wasm", "vendored wazero"},
		Stub:      []string{"$runtime.malloc/$runtime.free seam used for accounting only", "loop fuel counter", "initial memory size (256 pages)"},
		Assume:    append([]string{"no fault or schedule dimension: decided as a conservation check over the allocation history the C11 seam records", "loop bodies are sequences of driver operations, not arbitrary loops"}, commonAssume...),
		StateRule: "(driver, iteration count, body length / 8)",
	},
	"C27": {
		Flavor: "worker-c27", Rewrite: "map", Level: "exploration",
		QuickRuns: 1 << 30, QuickDL: 50 * time.Second, ThorDL: 30 * time.Minute, ThorSeeds: 5,
		Rule:      "a run = one program of the corpus (waroot/hello.wa, hello.wz, waroot/examples/*.wa, examples/misc/*.wa, tests/*.wa, every examples/*/wa.mod project, 4 generated driver programs), one configuration (target OS, with/without watstrip) and one tape-drawn schedule for the order of every range-over-map in the compiler (reverse everywhere, shuffle everywhere, or a per-site subset perturbed by reverse/rotate/swap/shuffle); the pipeline loader -> compiler_wat -> optional watstrip -> wat2wasm is run with the canonical order twice (repeat in one process) and once under the schedule; SHA-256 of WAT and wasm must be equal, and baselines must agree across the worker processes. Non-trivial = at least one range over a map with >= 2 keys had its order changed; distinct = distinct event-log digests.",
		Real:      []string{"loader", "type checker", "SSA builder", "compiler_wat backend", "watstrip", "watutil.Wat2Wasm"},
		Stub:      []string{"the order in which a range over a Go map yields keys (verifsim.Keys via AST-rewritten copies of 49 files)", "first-store serial numbers as canonical order for pointer/interface keys"},
		Assume:    append([]string{"other sources of nondeterminism (goroutines, time, addresses) are not behind a seam; they are only covered by the repeat and cross-process comparisons", "a dependence on a 3-cycle of keys only would not be produced by Go's runtime either way"}, commonAssume...),
		StateRule: "(program, configuration) pairs compiled under a perturbed order",
	},
	"C21": {
		Flavor: "worker-c21", Rewrite: "sched", Level: "exploration",
		RewriteArgs: []string{"-roots", "wa-lang.org/wa/internal/lsp",
			"-densepkgs", "wa-lang.org/wa/internal/lsp,wa-lang.org/wa/internal/lsp/jsonrpc2,wa-lang.org/wa/internal/lsp/fakenet",
			"-schedpkgs", "wa-lang.org/wa/internal/lsp/protocol,wa-lang.org/wa/internal/lsp/event"},
		QuickRuns: 1 << 30, QuickDL: 45 * time.Second, ThorDL: 30 * time.Minute, ThorSeeds: 5,
		Rule:      "a run = one simulated editing session of 1..40 messages against the real language server inside a testing/synctest bubble: initialize, didOpen, full and incremental didChange (1..4 ordered changes whose UTF-16 ranges the editor model computes from its own text over ASCII, 2/3-byte and astral characters, LF and CRLF), invalid edits, didSave, requests and cancels, on three documents (.wa and .wz URIs); each message is delivered in tape-chosen pieces with the server scheduled in between, reads are shortened, a connection may be cut inside a message; which of the server's goroutines (reader loop, feeders, one handler goroutine per message) runs next is a tape decision at every statement of the lsp/jsonrpc2/fakenet packages. At drain points and at the end the server's copy of every open document must equal the editor's; after an invalid edit or a cut it must equal the last completely delivered state; Run must return after EOF. Non-trivial = at least one context switch; distinct = distinct event-log digests (scripts + schedules).",
		Real:      []string{"LSPServer.Run and handlers (DidOpen/DidChange/...)", "protocol.Handlers chain (CancelHandler, AsyncHandler, MustReplyHandler, ServerHandler)", "protocol.Mapper (UTF-16 positions)", "jsonrpc2 header stream and connection", "fakenet connection and its feeder goroutines"},
		Stub:      []string{"stdin/stdout (blocking in-memory pipe with short reads and cut)", "the editor (model of the documents)", "goroutine scheduling (verifsim token scheduler over 788 yield points, 26 mutex sites, 6 go statements, 31 blocking statements)", "constructor taking the transport instead of os.Stdin/os.Stdout"},
		Assume:    append([]string{"positions between the halves of a surrogate pair, between CR and LF, beyond a line's end, and lone CR are never generated (the LSP specification allows more than one outcome)", "code that is not rewritten (encoding/json, context) runs atomically between yields"}, commonAssume...),
		StateRule: "(switch-probability knob, short-read knob, session length / 4)",
	},
}
