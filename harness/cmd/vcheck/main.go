// vcheck: coordinator. Builds the property's worker from /repo's current
// working tree (through a go build -overlay), runs up to 16 worker processes
// over disjoint run indices, merges results, confirms violations by replaying
// them in a fresh process, writes the evidence file.
//
//	vcheck <id> quick|thorough
//	vcheck <id> replay <file>
//
// Exit codes: 0 held; 1 violation (with a VIOLATION line); 2 harness trouble.
package main

import (
	"bytes"
	"encoding/json"
	"fmt"
	"os"
	"os/exec"
	"path/filepath"
	"runtime"
	"sort"
	"strconv"
	"strings"
	"sync"
	"time"

	"verif/harness/sim"
)

// verifDir is the root of the verification tree this binary belongs to (the
// directory vcheck.sh lives in); /verif unless run from a snapshot.
var verifDir = func() string {
	if d := os.Getenv("VERIF_DIR"); d != "" {
		return d
	}
	return "/verif"
}()

// repoDir is the repository under test: /repo, unless VERIF_REPO points at a
// scratch copy (used to run the checks against a seeded change without touching
// /repo).
var repoDir = func() string {
	if d := os.Getenv("VERIF_REPO"); d != "" {
		return d
	}
	return "/repo"
}()

type propCfg struct {
	Flavor      string // worker main package under cmd/
	Rewrite     string // simrewrite pass set ("" = none)
	RewriteArgs []string
	Level       string
	QuickRuns   int           // per worker
	QuickDL     time.Duration // per worker deadline
	ThorDL      time.Duration // total thorough budget
	ThorSeeds   int
	Workers     int
	Rule        string
	Real, Stub  []string
	Assume      []string
	StateRule   string
}

func main() {
	if len(os.Args) < 3 {
		fmt.Fprintln(os.Stderr, "usage: vcheck <id> quick|thorough|replay [file]")
		os.Exit(2)
	}
	id, mode := os.Args[1], os.Args[2]
	if v := os.Getenv("VERIF_TIER"); v != "" && (mode == "quick" || mode == "thorough") && len(os.Args) == 3 {
		_ = v // positional tier wins; VERIF_TIER is only used by vcheck.sh when no tier is given
	}
	cfg, ok := props[id]
	if !ok {
		fmt.Fprintf(os.Stderr, "vcheck: property %s is not claimed\n", id)
		os.Exit(2)
	}
	seed := uint64(1)
	if s := os.Getenv("VERIF_SEED"); s != "" {
		if v, err := strconv.ParseUint(s, 10, 64); err == nil {
			seed = v
		} else if v, err := strconv.ParseInt(s, 10, 64); err == nil {
			seed = uint64(v)
		}
	}
	runDir, err := os.MkdirTemp("", "verif-run.")
	if err != nil {
		fmt.Fprintln(os.Stderr, "vcheck:", err)
		os.Exit(2)
	}
	code := 2
	func() {
		defer os.RemoveAll(runDir)
		code = run(id, mode, cfg, seed, runDir)
	}()
	os.Exit(code)
}

func goEnv() []string {
	env := os.Environ()
	env = append(env, "GOFLAGS=-mod=mod", "GOPROXY=off", "GOSUMDB=off", "GOTOOLCHAIN=local", "CGO_ENABLED=0")
	return env
}

// buildWorker builds the worker binary for a flavor from /repo's working tree.
func buildWorker(cfg propCfg, runDir string) (string, error) {
	ov := map[string]string{}
	root := filepath.Join(verifDir, "overlay")
	err := filepath.Walk(root, func(p string, info os.FileInfo, err error) error {
		if err != nil {
			return err
		}
		if info.IsDir() || !strings.HasSuffix(p, ".go") {
			return nil
		}
		rel, _ := filepath.Rel(root, p)
		ov[filepath.Join(repoDir, rel)] = p
		return nil
	})
	if err != nil {
		return "", err
	}
	if cfg.Rewrite != "" {
		// simrewrite writes rewritten copies into runDir/rw and returns extra overlay entries.
		rw := filepath.Join(runDir, "rw")
		args := append([]string{"-passes", cfg.Rewrite, "-out", rw, "-repo", repoDir}, cfg.RewriteArgs...)
		cmd := exec.Command(filepath.Join(verifDir, "bin", "simrewrite"), args...)
		cmd.Env = goEnv()
		var out bytes.Buffer
		cmd.Stdout = &out
		cmd.Stderr = os.Stderr
		if err := cmd.Run(); err != nil {
			return "", fmt.Errorf("simrewrite: %v", err)
		}
		var extra map[string]string
		if err := json.Unmarshal(out.Bytes(), &extra); err != nil {
			return "", fmt.Errorf("simrewrite output: %v", err)
		}
		for k, v := range extra {
			ov[k] = v
		}
	}
	ovPath := filepath.Join(runDir, "overlay.json")
	b, _ := json.Marshal(map[string]any{"Replace": ov})
	if err := os.WriteFile(ovPath, b, 0o644); err != nil {
		return "", err
	}
	bin := filepath.Join(runDir, "worker")
	buildArgs := []string{"build", "-overlay", ovPath, "-o", bin}
	if repoDir != "/repo" {
		// a go.mod whose replace directive points at the scratch copy
		gm, err := os.ReadFile(filepath.Join(verifDir, "harness", "go.mod"))
		if err != nil {
			return "", err
		}
		alt := filepath.Join(runDir, "alt.mod")
		if err := os.WriteFile(alt, []byte(strings.Replace(string(gm), "=> /repo", "=> "+repoDir, 1)), 0o644); err != nil {
			return "", err
		}
		if gs, err := os.ReadFile(filepath.Join(verifDir, "harness", "go.sum")); err == nil {
			os.WriteFile(filepath.Join(runDir, "alt.sum"), gs, 0o644)
		}
		buildArgs = append(buildArgs, "-modfile="+alt)
	}
	buildArgs = append(buildArgs, "./cmd/"+cfg.Flavor)
	cmd := exec.Command("go1.26.8", buildArgs...)
	cmd.Dir = filepath.Join(verifDir, "harness")
	cmd.Env = goEnv()
	out, err := cmd.CombinedOutput()
	if err != nil {
		return "", fmt.Errorf("go build failed:\n%s", out)
	}
	return bin, nil
}

func run(id, mode string, cfg propCfg, seed uint64, runDir string) int {
	t0 := time.Now()
	bin, err := buildWorker(cfg, runDir)
	if err != nil {
		fmt.Fprintln(os.Stderr, "vcheck: build trouble:", err)
		return 2
	}
	buildS := time.Since(t0).Seconds()
	if mode == "build" {
		// developer aid: keep the worker binary (and rewritten sources) somewhere
		if len(os.Args) < 4 {
			fmt.Fprintln(os.Stderr, "usage: vcheck <id> build <dir>")
			return 2
		}
		os.MkdirAll(os.Args[3], 0o755)
		exec.Command("cp", "-r", bin, filepath.Join(runDir, "overlay.json"), os.Args[3]).Run()
		exec.Command("cp", "-r", filepath.Join(runDir, "rw"), os.Args[3]).Run()
		fmt.Println("built", filepath.Join(os.Args[3], "worker"))
		return 0
	}
	if mode == "replay" {
		if len(os.Args) < 4 {
			fmt.Fprintln(os.Stderr, "usage: vcheck <id> replay <file>")
			return 2
		}
		cmd := exec.Command(bin, "-prop", id, "-replay", os.Args[3])
		cmd.Env = append(os.Environ(), "VERIF_RW_DIR="+filepath.Join(runDir, "rw"))
		cmd.Stdout, cmd.Stderr = os.Stdout, os.Stderr
		err := cmd.Run()
		if ee, ok := err.(*exec.ExitError); ok {
			c := ee.ExitCode()
			if c == 1 {
				fmt.Printf("VIOLATION property=%s replay=%s\n", id, os.Args[3])
				return 1
			}
			return 2
		} else if err != nil {
			return 2
		}
		return 0
	}
	tier := mode
	if tier != "quick" && tier != "thorough" {
		fmt.Fprintln(os.Stderr, "vcheck: unknown mode", mode)
		return 2
	}
	workers := cfg.Workers
	if workers == 0 {
		workers = runtime.NumCPU()
		if workers > 16 {
			workers = 16
		}
	}
	if v, err := strconv.Atoi(os.Getenv("VERIF_WORKERS")); err == nil && v > 0 && v <= 64 {
		workers = v
	}
	seeds := []uint64{seed}
	perSeedDL := cfg.QuickDL
	count := cfg.QuickRuns
	if tier == "thorough" {
		n := cfg.ThorSeeds
		if n == 0 {
			n = 5
		}
		seeds = nil
		for i := 0; i < n; i++ {
			seeds = append(seeds, seed+uint64(i))
		}
		perSeedDL = cfg.ThorDL / time.Duration(n)
		count = 1 << 30
	}
	merged := &sim.WorkerOut{Faults: map[string]int{}, Probes: map[string]int{}, Extra: map[string]any{}}
	nontriv := map[string]bool{}
	states := map[string]bool{}
	var trouble []string
	var disagreements []string
	for _, sd := range seeds {
		outs := make([]*sim.WorkerOut, workers)
		errs := make([]string, workers)
		var wg sync.WaitGroup
		for w := 0; w < workers; w++ {
			wg.Add(1)
			go func(w int) {
				defer wg.Done()
				of := filepath.Join(runDir, fmt.Sprintf("out-%d-%d.json", sd, w))
				cmd := exec.Command(bin, "-prop", id, "-tier", tier, "-seed", fmt.Sprint(sd),
					"-replaydir", filepath.Join(verifDir, "replays"), "-known", filepath.Join(verifDir, "known_findings.json"),
					"-first", fmt.Sprint(w), "-stride", fmt.Sprint(workers), "-count", fmt.Sprint(count),
					"-deadline", perSeedDL.String(), "-out", of)
				cmd.Env = append(os.Environ(), "GOMAXPROCS=2", "VERIF_RW_DIR="+filepath.Join(runDir, "rw"), "VERIF_REPO="+repoDir)
				var eb bytes.Buffer
				cmd.Stderr = &eb
				cmd.Stdout = &eb
				done := make(chan error, 1)
				if err := cmd.Start(); err != nil {
					errs[w] = err.Error()
					return
				}
				go func() { done <- cmd.Wait() }()
				select {
				case err := <-done:
					if err != nil {
						errs[w] = fmt.Sprintf("worker %d: %v\n%s", w, err, tail(eb.String(), 3000))
						return
					}
				case <-time.After(perSeedDL*3 + 5*time.Minute):
					cmd.Process.Kill()
					errs[w] = fmt.Sprintf("worker %d: watchdog: killed after %v", w, perSeedDL*3+5*time.Minute)
					return
				}
				b, err := os.ReadFile(of)
				if err != nil {
					errs[w] = err.Error()
					return
				}
				var wo sim.WorkerOut
				if err := json.Unmarshal(b, &wo); err != nil {
					errs[w] = err.Error()
					return
				}
				outs[w] = &wo
			}(w)
		}
		wg.Wait()
		for w := 0; w < workers; w++ {
			if errs[w] != "" {
				trouble = append(trouble, errs[w])
				continue
			}
			wo := outs[w]
			merged.Runs += wo.Runs
			merged.Steps += wo.Steps
			merged.SimTimeNs += wo.SimTimeNs
			merged.ShrinkExecs += wo.ShrinkExecs
			for k, v := range wo.Faults {
				merged.Faults[k] += v
			}
			for k, v := range wo.Probes {
				merged.Probes[k] += v
			}
			for _, d := range wo.Nontrivial {
				nontriv[d] = true
			}
			for _, s := range wo.States {
				states[s] = true
			}
			if len(merged.Samples) < 4 {
				merged.Samples = append(merged.Samples, wo.Samples...)
			}
			merged.Violations = append(merged.Violations, wo.Violations...)
			for _, k := range wo.Known {
				if !contains(merged.Known, k) {
					merged.Known = append(merged.Known, k)
				}
			}
			trouble = append(trouble, wo.Trouble...)
			for k, v := range wo.Extra {
				if strings.HasPrefix(k, "must_agree:") {
					if old, ok := merged.Extra[k]; ok && fmt.Sprint(old) != fmt.Sprint(v) {
						disagreements = append(disagreements, fmt.Sprintf("%s: %v in one worker process, %v in another", strings.TrimPrefix(k, "must_agree:"), old, v))
					}
				}
				merged.Extra[k] = v
			}
		}
		if len(merged.Violations) > 0 {
			break
		}
	}
	if len(merged.Samples) > 4 {
		merged.Samples = merged.Samples[:4]
	}
	// confirm violations by replay in a fresh process
	var confirmed []string
	sigSeen := map[string]bool{}
	sort.Strings(merged.Violations)
	for _, v := range merged.Violations {
		if b, err := os.ReadFile(v); err == nil {
			var rp sim.Replay
			if json.Unmarshal(b, &rp) == nil {
				if sigSeen[rp.Signature] {
					os.Remove(v) // same signature as an already reported violation
					continue
				}
				sigSeen[rp.Signature] = true
			}
		}
		cmd := exec.Command(bin, "-prop", id, "-replay", v)
		cmd.Env = append(os.Environ(), "VERIF_RW_DIR="+filepath.Join(runDir, "rw"))
		out, err := cmd.CombinedOutput()
		c := 0
		if ee, ok := err.(*exec.ExitError); ok {
			c = ee.ExitCode()
		}
		if c == 1 {
			confirmed = append(confirmed, v)
		} else {
			trouble = append(trouble, fmt.Sprintf("violation %s did not replay identically (exit %d): %s", v, c, tail(string(out), 500)))
		}
	}
	if len(disagreements) > 0 {
		// results that must be equal in every process differ: a violation whose
		// "replay" is the record of the disagreement
		sort.Strings(disagreements)
		path := filepath.Join(verifDir, "replays", fmt.Sprintf("%s-%d-crossprocess.json", id, seed))
		b, _ := json.MarshalIndent(map[string]any{"property": id, "class": "cross_process_differs", "signature": "cross_process_differs", "detail": disagreements, "seed": seed}, "", " ")
		os.MkdirAll(filepath.Dir(path), 0o755)
		os.WriteFile(path, b, 0o644)
		confirmed = append(confirmed, path)
	}
	// must_agree values are bulky: keep only their count in the evidence
	agree := 0
	for k := range merged.Extra {
		if strings.HasPrefix(k, "must_agree:") {
			agree++
			delete(merged.Extra, k)
		}
	}
	if agree > 0 {
		merged.Extra["values_compared_across_worker_processes"] = agree
		merged.Extra["cross_process_disagreements"] = len(disagreements)
	}
	wall := time.Since(t0).Seconds()
	for _, k := range merged.Known {
		fmt.Printf("KNOWN-FINDING: property=%s %s\n", id, k)
	}
	writeEvidence(id, tier, seed, seeds, cfg, merged, len(nontriv), len(states), len(confirmed), wall, buildS, trouble, workers)
	for _, v := range confirmed {
		fmt.Printf("VIOLATION property=%s replay=%s\n", id, v)
	}
	fmt.Printf("%s %s: runs=%d steps=%d distinct_nontrivial=%d states=%d faults=%v known=%d violations=%d wall=%.1fs (build %.1fs)\n",
		id, tier, merged.Runs, merged.Steps, len(nontriv), len(states), merged.Faults, len(merged.Known), len(confirmed), wall, buildS)
	if len(confirmed) > 0 {
		return 1
	}
	if len(trouble) > 0 {
		for _, t := range trouble {
			fmt.Fprintln(os.Stderr, "vcheck: trouble:", t)
		}
		return 2
	}
	if merged.Runs == 0 {
		fmt.Fprintln(os.Stderr, "vcheck: no runs executed")
		return 2
	}
	return 0
}

func contains(a []string, s string) bool {
	for _, x := range a {
		if x == s {
			return true
		}
	}
	return false
}

func tail(s string, n int) string {
	if len(s) > n {
		return "..." + s[len(s)-n:]
	}
	return s
}

func writeEvidence(id, tier string, seed uint64, seeds []uint64, cfg propCfg, m *sim.WorkerOut, distinct, nstates, viol int, wall, buildS float64, trouble []string, workers int) {
	probeNames := make([]string, 0, len(m.Probes))
	for k := range m.Probes {
		probeNames = append(probeNames, k)
	}
	sort.Strings(probeNames)
	samples := m.Samples
	if len(samples) == 0 {
		samples = []any{"(no sample recorded)"}
	}
	runWall := wall - buildS
	if runWall <= 0 {
		runWall = 0.001
	}
	cov := map[string]any{
		"evaluations":             m.Runs,
		"distinct_nontrivial":     distinct,
		"rule":                    cfg.Rule,
		"samples":                 samples,
		"sim_steps":               m.Steps,
		"sim_time_ns":             m.SimTimeNs,
		"runs_per_hour":           int(float64(m.Runs) / runWall * 3600),
		"seeds":                   seeds,
		"workers":                 workers,
		"faults_fired":            m.Faults,
		"probes":                  m.Probes,
		"distinct_states":         nstates,
		"distinct_states_measure": cfg.StateRule,
		"components":              map[string]any{"real": cfg.Real, "stub": cfg.Stub},
		"shrink_executions":       m.ShrinkExecs,
		"known_findings_seen":     m.Known,
		"harness_trouble":         trouble,
		"build_s":                 buildS,
	}
	for k, v := range m.Extra {
		cov["x_"+k] = v
	}
	ev := map[string]any{
		"property_id": id,
		"tier":        tier,
		"seed":        seed,
		"level":       cfg.Level,
		"coverage":    cov,
		"assumptions": cfg.Assume,
		"wall_s":      wall,
		"violations":  viol,
	}
	b, _ := json.MarshalIndent(ev, "", " ")
	os.MkdirAll(filepath.Join(verifDir, "evidence"), 0o755)
	if err := os.WriteFile(filepath.Join(verifDir, "evidence", id+".json"), b, 0o644); err != nil {
		fmt.Fprintln(os.Stderr, "vcheck: cannot write evidence:", err)
	}
}
