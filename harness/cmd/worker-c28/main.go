// worker-c28: built with the simrewrite passes map,sched,gyield,mapacc applied
// to every package on the public API path. Parent mode: the usual worker loop.
// Child mode (-c28child): one scenario in this cold process.
package main

import (
	"flag"
	"testing"

	"verif/harness/engines/c28"
	"verif/harness/sim"
)

func main() {
	testing.Init()
	flag.Parse()
	if !c28.IsChild() {
		sim.WorkerMain(map[string]func() sim.Engine{"C28": c28.New})
		return
	}
	testing.Main(func(pat, str string) (bool, error) { return true, nil },
		[]testing.InternalTest{{Name: "child", F: func(t *testing.T) {
			c28.T = t
			c28.ChildMain()
		}}}, nil, nil)
}
