// worker-plain: engines that need the bridge/accessor overlay but no source
// rewriting (C25, C26, C10, C11, C12, C13).
package main

import (
	"verif/harness/engines/c10"
	"verif/harness/engines/c11"
	"verif/harness/engines/c13"
	"verif/harness/engines/c25"
	"verif/harness/engines/c26"
	"verif/harness/sim"
)

func main() {
	sim.WorkerMain(map[string]func() sim.Engine{
		"C10": c10.New,
		"C11": c11.New11,
		"C12": c11.New12,
		"C13": c13.New,
		"C25": c25.New,
		"C26": c26.New,
	})
}
