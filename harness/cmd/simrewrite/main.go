// simrewrite: source-to-source seams. Loads repository packages with type
// information and writes rewritten *copies* of the files it changes, plus the
// overlay entries (JSON on stdout) that make `go build -overlay` use them.
// Nothing under /repo is written. All edits are text splices at AST positions,
// so comments, directives and everything not touched stay byte-identical.
//
// passes:
//
//	map    every `range` over a map goes through verifsim.Keys (order decided by
//	       the simulator); stores into maps with non-sortable key kinds register
//	       the key (verifsim.K) so that a canonical, address-free order exists
package main

import (
	"encoding/json"
	"flag"
	"fmt"
	"go/ast"
	"go/token"
	"go/types"
	"os"
	"path/filepath"
	"sort"
	"strings"

	"golang.org/x/tools/go/packages"
)

type edit struct {
	off  int
	end  int // == off for pure insertion
	text string
	seq  int
}

type fileRW struct {
	path  string
	src   []byte
	edits []edit
	tf    *token.File
}

func (f *fileRW) ins(pos token.Pos, text string) {
	o := f.tf.Offset(pos)
	f.edits = append(f.edits, edit{o, o, text, len(f.edits)})
}

func (f *fileRW) repl(from, to token.Pos, text string) {
	f.edits = append(f.edits, edit{f.tf.Offset(from), f.tf.Offset(to), text, len(f.edits)})
}

func (f *fileRW) text(from, to token.Pos) string {
	return string(f.src[f.tf.Offset(from):f.tf.Offset(to)])
}

type Site struct {
	ID   int    `json:"id"`
	Kind string `json:"kind"`
	Pos  string `json:"pos"`
	Key  string `json:"key_type,omitempty"`
	Fn   string `json:"func,omitempty"`
}

var sites []Site
var repo = "/repo"
var schedPkgs = map[string]bool{}
var densePkgs = map[string]bool{}
var unsupported []string
var schedAll bool

func main() {
	passes := flag.String("passes", "map", "comma separated passes")
	out := flag.String("out", "", "output directory for rewritten copies")
	roots := flag.String("roots", "wa-lang.org/wa/api,wa-lang.org/wa/internal/app/appbuild", "root packages; their in-module dependencies are rewritten")
	flag.StringVar(&repo, "repo", "/repo", "repository root")
	sp := flag.String("schedpkgs", "", "packages that get go/blocking/lock seams (comma separated import paths)")
	dp := flag.String("densepkgs", "", "packages that additionally get a yield before every statement")
	flag.BoolVar(&schedAll, "schedall", false, "apply the go/blocking/lock seams to every selected package")
	flag.Parse()
	for _, x := range strings.Split(*sp, ",") {
		if x != "" {
			schedPkgs[x] = true
		}
	}
	for _, x := range strings.Split(*dp, ",") {
		if x != "" {
			schedPkgs[x] = true
			densePkgs[x] = true
		}
	}
	if *out == "" {
		fmt.Fprintln(os.Stderr, "simrewrite: -out required")
		os.Exit(2)
	}
	want := map[string]bool{}
	for _, p := range strings.Split(*passes, ",") {
		want[p] = true
	}
	cfg := &packages.Config{
		Mode: packages.NeedName | packages.NeedFiles | packages.NeedCompiledGoFiles | packages.NeedSyntax | packages.NeedTypes | packages.NeedTypesInfo | packages.NeedImports | packages.NeedDeps,
		Dir:  repo,
		Env:  append(os.Environ(), "GOFLAGS=-mod=mod", "GOPROXY=off", "GOSUMDB=off", "GOTOOLCHAIN=local", "CGO_ENABLED=0"),
	}
	pkgs, err := packages.Load(cfg, strings.Split(*roots, ",")...)
	if err != nil {
		fmt.Fprintln(os.Stderr, "simrewrite: load:", err)
		os.Exit(2)
	}
	var sel []*packages.Package
	seen := map[string]bool{}
	packages.Visit(pkgs, func(p *packages.Package) bool {
		if seen[p.PkgPath] {
			return false
		}
		seen[p.PkgPath] = true
		return true
	}, func(p *packages.Package) {
		if strings.HasPrefix(p.PkgPath, "wa-lang.org/wa/") && !strings.Contains(p.PkgPath, "/3rdparty/wazero") && !strings.Contains(p.PkgPath, "/verifbridge") && !strings.HasSuffix(p.PkgPath, "/verifsim") {
			sel = append(sel, p)
		}
	})
	sort.Slice(sel, func(i, j int) bool { return sel[i].PkgPath < sel[j].PkgPath })
	if want["gyield"] {
		for _, p := range sel {
			findAliasFuncs(p)
		}
	}
	overlay := map[string]string{}
	nerr := 0
	for _, p := range sel {
		for _, e := range p.Errors {
			fmt.Fprintln(os.Stderr, "simrewrite: package error:", e)
			nerr++
		}
		for i, file := range p.Syntax {
			path := p.CompiledGoFiles[i]
			if !strings.HasPrefix(path, repo+"/") {
				continue
			}
			src, err := os.ReadFile(path)
			if err != nil {
				fmt.Fprintln(os.Stderr, "simrewrite:", err)
				os.Exit(2)
			}
			f := &fileRW{path: path, src: src, tf: p.Fset.File(file.Pos())}
			if want["map"] {
				passMap(p, file, f)
			}
			if want["sched"] && (schedPkgs[p.PkgPath] || schedAll) {
				passSched(p, file, f, densePkgs[p.PkgPath])
			}
			if want["gyield"] {
				passGYield(p, file, f)
			}
			if want["mapacc"] {
				passMapAcc(p, file, f, want["map"])
			}
			if len(f.edits) == 0 {
				continue
			}
			f.finish(file)
			rel, _ := filepath.Rel(repo, path)
			dst := filepath.Join(*out, rel)
			os.MkdirAll(filepath.Dir(dst), 0o755)
			if err := os.WriteFile(dst, f.apply(), 0o644); err != nil {
				fmt.Fprintln(os.Stderr, "simrewrite:", err)
				os.Exit(2)
			}
			overlay[path] = dst
		}
	}
	if nerr > 0 {
		os.Exit(2)
	}
	for _, u := range unsupported {
		fmt.Fprintln(os.Stderr, "simrewrite: unsupported (left as is):", u)
	}
	sb, _ := json.MarshalIndent(sites, "", " ")
	os.WriteFile(filepath.Join(*out, "sites.json"), sb, 0o644)
	b, _ := json.Marshal(overlay)
	os.Stdout.Write(b)
}

// finish adds the import and the language-version build tag.
func (f *fileRW) finish(file *ast.File) {
	// import right after the package clause
	f.ins(file.Name.End(), "\n\nimport verifsim \"wa-lang.org/wa/verifsim\"\n")
	// build tag: generic helper calls need go >= 1.18 in this go-1.17 module;
	// go1.21 keeps the old per-loop variable semantics
	s := string(f.src)
	lines := strings.SplitAfter(s[:f.tf.Offset(file.Package)], "\n")
	off := 0
	found := false
	for _, ln := range lines {
		t := strings.TrimSpace(ln)
		if strings.HasPrefix(t, "//go:build ") {
			expr := strings.TrimPrefix(t, "//go:build ")
			f.edits = append(f.edits, edit{off, off + len(ln), "//go:build (" + expr + ") && go1.21\n", len(f.edits)})
			found = true
		} else if strings.HasPrefix(t, "// +build ") {
			f.edits = append(f.edits, edit{off, off + len(ln), "", len(f.edits)})
		}
		off += len(ln)
	}
	if !found {
		f.edits = append(f.edits, edit{0, 0, "//go:build go1.21\n\n", len(f.edits)})
	}
}

func (f *fileRW) apply() []byte {
	es := append([]edit(nil), f.edits...)
	// apply from the end; for equal offsets, later-registered insertions first so
	// that earlier-registered text ends up first in the output
	sort.SliceStable(es, func(i, j int) bool {
		if es[i].off != es[j].off {
			return es[i].off > es[j].off
		}
		ri, rj := es[i].end > es[i].off, es[j].end > es[j].off
		if ri != rj {
			return ri // replacements of original text first, then insertions in front of them
		}
		return es[i].seq > es[j].seq
	})
	b := append([]byte(nil), f.src...)
	for _, e := range es {
		b = append(b[:e.off], append([]byte(e.text), b[e.end:]...)...)
	}
	return b
}

func basicKey(t types.Type) bool {
	b, ok := t.Underlying().(*types.Basic)
	if !ok {
		return false
	}
	return b.Info()&(types.IsString|types.IsInteger|types.IsFloat|types.IsBoolean) != 0
}

func mapType(info *types.Info, e ast.Expr) *types.Map {
	tv, ok := info.Types[e]
	if !ok || tv.Type == nil {
		return nil
	}
	m, _ := tv.Type.Underlying().(*types.Map)
	return m
}

func relPos(p *packages.Package, pos token.Pos) string {
	ps := p.Fset.Position(pos)
	rel, _ := filepath.Rel(repo, ps.Filename)
	return fmt.Sprintf("%s:%d", rel, ps.Line)
}

func passMap(p *packages.Package, file *ast.File, f *fileRW) {
	info := p.TypesInfo
	labels := map[*ast.RangeStmt]*ast.LabeledStmt{}
	ast.Inspect(file, func(n ast.Node) bool {
		if l, ok := n.(*ast.LabeledStmt); ok {
			if r, ok := l.Stmt.(*ast.RangeStmt); ok {
				labels[r] = l
			}
		}
		return true
	})
	var fn string
	ast.Inspect(file, func(n ast.Node) bool {
		switch n := n.(type) {
		case *ast.FuncDecl:
			fn = n.Name.Name
		case *ast.RangeStmt:
			mt := mapType(info, n.X)
			if mt == nil {
				return true
			}
			id := len(sites)
			sites = append(sites, Site{ID: id, Kind: "map_range", Pos: relPos(p, n.Pos()), Key: mt.Key().String(), Fn: fn})
			m := fmt.Sprintf("__vm%d", id)
			k := fmt.Sprintf("__vk%d", id)
			v := fmt.Sprintf("__vv%d", id)
			ok := fmt.Sprintf("__vo%d", id)
			isBlank := func(e ast.Expr) bool {
				if e == nil {
					return true
				}
				id, ok := e.(*ast.Ident)
				return ok && id.Name == "_"
			}
			var pre, assign strings.Builder
			fmt.Fprintf(&pre, "{\n%s := %s\n", m, f.text(n.X.Pos(), n.X.End()))
			hasK, hasV := !isBlank(n.Key), !isBlank(n.Value)
			var kt, vt string
			if hasK {
				kt = f.text(n.Key.Pos(), n.Key.End())
			}
			if hasV {
				vt = f.text(n.Value.Pos(), n.Value.End())
			}
			if n.Tok == token.DEFINE {
				switch {
				case hasK && hasV:
					fmt.Fprintf(&pre, "%s, %s := verifsim.Zero2(%s)\n", kt, vt, m)
				case hasK:
					fmt.Fprintf(&pre, "%s := verifsim.Zero1(%s)\n", kt, m)
				case hasV:
					fmt.Fprintf(&pre, "%s := verifsim.ZeroV(%s)\n", vt, m)
				}
			}
			if hasK {
				fmt.Fprintf(&assign, "%s = %s\n", kt, k)
			}
			if hasV {
				fmt.Fprintf(&assign, "%s = %s\n", vt, v)
			}
			label := ""
			start := n.Pos()
			if l := labels[n]; l != nil {
				label = l.Label.Name + ":\n"
				start = l.Pos()
			}
			valName := v
			if !hasV {
				valName = "_"
			}
			header := fmt.Sprintf("%s%sfor _, %s := range verifsim.Keys(%d, %s) {\n%s, %s := %s[%s]\nif !%s {\ncontinue\n}\n%s",
				pre.String(), label, k, id, m, valName, ok, m, k, ok, assign.String())
			f.repl(start, n.Body.Lbrace+1, header)
			f.ins(n.Body.Rbrace+1, "\n}")
		case *ast.AssignStmt:
			for _, l := range n.Lhs {
				regKey(info, l, f)
			}
		case *ast.IncDecStmt:
			regKey(info, n.X, f)
		case *ast.CompositeLit:
			mt := mapType(info, n)
			if mt == nil || basicKey(mt.Key()) {
				return true
			}
			for _, el := range n.Elts {
				if kv, ok := el.(*ast.KeyValueExpr); ok {
					f.ins(kv.Key.Pos(), "verifsim.K(")
					f.ins(kv.Key.End(), ")")
				}
			}
		}
		return true
	})
}

// regKey wraps the index of a store m[k] = ... when the key kind is not sortable.
func regKey(info *types.Info, lhs ast.Expr, f *fileRW) {
	ix, ok := lhs.(*ast.IndexExpr)
	if !ok {
		return
	}
	mt := mapType(info, ix.X)
	if mt == nil || basicKey(mt.Key()) {
		return
	}
	f.ins(ix.Index.Pos(), "verifsim.K(")
	f.ins(ix.Index.End(), ")")
}

// ---------------------------------------------------------------- sched pass

func newSite(p *packages.Package, kind string, pos token.Pos, fn string) int {
	id := len(sites)
	sites = append(sites, Site{ID: id, Kind: kind, Pos: relPos(p, pos), Fn: fn})
	return id
}

func isNamed(t types.Type, pkg, name string) bool {
	if pt, ok := t.(*types.Pointer); ok {
		t = pt.Elem()
	}
	n, ok := t.(*types.Named)
	if !ok || n.Obj().Pkg() == nil {
		return false
	}
	return n.Obj().Pkg().Path() == pkg && n.Obj().Name() == name
}

// hasRecv reports whether a statement (not descending into function literals
// or nested blocks) contains a channel receive.
func hasRecv(n ast.Node) bool {
	found := false
	ast.Inspect(n, func(x ast.Node) bool {
		switch x := x.(type) {
		case *ast.FuncLit, *ast.BlockStmt:
			return false
		case *ast.UnaryExpr:
			if x.Op == token.ARROW {
				found = true
			}
		}
		return !found
	})
	return found
}

func passSched(p *packages.Package, file *ast.File, f *fileRW, dense bool) {
	info := p.TypesInfo
	fn := ""
	// 1. lock operations and go statements, blocking calls
	ast.Inspect(file, func(n ast.Node) bool {
		switch n := n.(type) {
		case *ast.FuncDecl:
			fn = n.Name.Name
		case *ast.GoStmt:
			id := newSite(p, "go", n.Pos(), fn)
			call := n.Call
			if lit, ok := call.Fun.(*ast.FuncLit); ok && len(call.Args) == 0 {
				// go func() {...}()  ->  verifsim.Go(name, func() {...})
				f.repl(n.Pos(), lit.Pos(), fmt.Sprintf("verifsim.Go(%q, ", sites[id].Pos))
				f.repl(lit.End(), n.End(), ")")
			} else {
				// go f(a, b)  ->  verifsim.Go(name, func() { f(a, b) })
				// (arguments are evaluated when the task starts; the operands at the
				// rewritten sites are not reassigned after the go statement)
				f.repl(n.Pos(), call.Pos(), fmt.Sprintf("verifsim.Go(%q, func() { ", sites[id].Pos))
				f.ins(n.End(), " })")
			}
			return true // descend: the function literal's body still gets rewritten (edits inside the replaced text are dropped below)
		case *ast.CallExpr:
			sel, ok := n.Fun.(*ast.SelectorExpr)
			if !ok {
				return true
			}
			name := sel.Sel.Name
			rt := info.TypeOf(sel.X)
			if rt == nil {
				return true
			}
			isMu := isNamed(rt, "sync", "Mutex") || isNamed(rt, "sync", "RWMutex")
			if isMu && (name == "Lock" || name == "Unlock" || name == "RLock" || name == "RUnlock") && len(n.Args) == 0 {
				id := newSite(p, "lock", n.Pos(), fn)
				recv := f.text(sel.X.Pos(), sel.X.End())
				if _, isPtr := rt.(*types.Pointer); !isPtr {
					recv = "&" + recv
				}
				f.repl(n.Pos(), n.End(), fmt.Sprintf("verifsim.%s(%s, %d)", name, recv, id))
				return false
			}
			if (name == "Lock" || name == "Unlock" || name == "RLock" || name == "RUnlock") && len(n.Args) == 0 {
				if s := info.Selections[sel]; s != nil && s.Obj().Pkg() != nil && s.Obj().Pkg().Path() == "sync" && len(s.Index()) == 2 {
					// promoted through one embedded field: x.Lock() is x.<Field>.Lock()
					st := rt
					if pt, ok := st.(*types.Pointer); ok {
						st = pt.Elem()
					}
					if str, ok := st.Underlying().(*types.Struct); ok {
						fld := str.Field(s.Index()[0])
						id := newSite(p, "lock", n.Pos(), fn)
						recv := f.text(sel.X.Pos(), sel.X.End()) + "." + fld.Name()
						if _, isPtr := fld.Type().(*types.Pointer); !isPtr {
							recv = "&" + recv
						}
						f.repl(n.Pos(), n.End(), fmt.Sprintf("verifsim.%s(%s, %d)", name, recv, id))
						return false
					}
				}
				if s := info.Selections[sel]; s != nil && s.Obj().Pkg() != nil && s.Obj().Pkg().Path() == "sync" {
					unsupported = append(unsupported, relPos(p, n.Pos())+": "+name+" through nested embedding of a sync mutex")
				}
			}
			if name == "Do" && isNamed(rt, "sync", "Once") && len(n.Args) == 1 {
				id := newSite(p, "once", n.Pos(), fn)
				recv := f.text(sel.X.Pos(), sel.X.End())
				if _, isPtr := rt.(*types.Pointer); !isPtr {
					recv = "&" + recv
				}
				// keep the argument's own text (and edits inside it): replace only the callee and add the site
				f.repl(n.Pos(), n.Lparen+1, fmt.Sprintf("verifsim.OnceDo(%s, ", recv))
				f.ins(n.Rparen, fmt.Sprintf(", %d", id))
				return true
			}
		}
		return true
	})
	// 2. yields: after blocking statements, and (dense) before every statement
	var lists func(n ast.Node)
	doList := func(list []ast.Stmt) {
		for _, st := range list {
			inner := st
			if l, ok := st.(*ast.LabeledStmt); ok {
				inner = l.Stmt
			}
			switch inner.(type) {
			case *ast.CaseClause, *ast.CommClause:
				continue // the body list of a switch/select: clauses, not statements
			}
			if dense {
				switch inner.(type) {
				case *ast.EmptyStmt:
				default:
					id := newSite(p, "yield", st.Pos(), fn)
					f.ins(st.Pos(), fmt.Sprintf("verifsim.Yield(%d)\n", id))
				}
			}
			blocking := false
			switch x := inner.(type) {
			case *ast.SendStmt:
				blocking = true
			case *ast.ExprStmt, *ast.AssignStmt, *ast.DeclStmt:
				blocking = hasRecv(x)
				if c, ok := inner.(*ast.ExprStmt); ok {
					if call, ok := c.X.(*ast.CallExpr); ok {
						if sel, ok := call.Fun.(*ast.SelectorExpr); ok && sel.Sel.Name == "Wait" {
							if rt := info.TypeOf(sel.X); rt != nil && (isNamed(rt, "sync", "WaitGroup") || isNamed(rt, "sync", "Cond")) {
								blocking = true
							}
						}
					}
				}
			case *ast.ReturnStmt, *ast.IfStmt, *ast.SwitchStmt, *ast.ForStmt:
				// a receive in a return value or in an if/switch/for header cannot be followed by a yield
				var hdr ast.Node
				switch y := x.(type) {
				case *ast.ReturnStmt:
					hdr = y
				case *ast.IfStmt:
					if y.Init != nil && hasRecv(y.Init) || hasRecv(y.Cond) {
						unsupported = append(unsupported, relPos(p, st.Pos())+": channel receive in an if header")
					}
				}
				if hdr != nil && hasRecv(hdr) {
					unsupported = append(unsupported, relPos(p, st.Pos())+": channel receive in a return statement")
				}
			}
			if blocking {
				id := newSite(p, "after_block", st.End(), fn)
				f.ins(st.End(), fmt.Sprintf("\nverifsim.Yield(%d)", id))
			}
		}
	}
	lists = func(n ast.Node) {
		ast.Inspect(n, func(x ast.Node) bool {
			switch x := x.(type) {
			case *ast.FuncDecl:
				fn = x.Name.Name
			case *ast.BlockStmt:
				doList(x.List)
			case *ast.CaseClause:
				doList(x.Body)
			case *ast.CommClause:
				// after the communication of a select clause completed
				if x.Comm != nil || true {
					id := newSite(p, "after_select", x.Colon, fn)
					f.ins(x.Colon+1, fmt.Sprintf("\nverifsim.Yield(%d)", id))
				}
				doList(x.Body)
			case *ast.RangeStmt:
				if t := info.TypeOf(x.X); t != nil {
					if _, ok := t.Underlying().(*types.Chan); ok {
						id := newSite(p, "after_block", x.Body.Lbrace, fn)
						f.ins(x.Body.Lbrace+1, fmt.Sprintf("\nverifsim.Yield(%d)", id))
					}
				}
			}
			return true
		})
	}
	lists(file)
}

// ---------------------------------------------------------------- gyield pass

// writesPkgVar reports whether the statement assigns to (or takes the address
// of) a package-level variable.
func writesPkgVar(info *types.Info, n ast.Node) bool {
	isPkgVar := func(e ast.Expr) bool {
		for {
			switch x := e.(type) {
			case *ast.ParenExpr:
				e = x.X
				continue
			case *ast.SelectorExpr:
				if v, ok := info.Uses[x.Sel].(*types.Var); ok && !v.IsField() && v.Pkg() != nil && v.Parent() == v.Pkg().Scope() {
					return true
				}
				e = x.X
				continue
			case *ast.IndexExpr:
				e = x.X
				continue
			case *ast.StarExpr:
				e = x.X
				continue
			case *ast.Ident:
				v, ok := info.Uses[x].(*types.Var)
				return ok && !v.IsField() && v.Pkg() != nil && v.Parent() == v.Pkg().Scope()
			}
			return false
		}
	}
	found := false
	ast.Inspect(n, func(x ast.Node) bool {
		if found {
			return false
		}
		switch x := x.(type) {
		case *ast.FuncLit, *ast.BlockStmt:
			return false
		case *ast.AssignStmt:
			for _, l := range x.Lhs {
				if isPkgVar(l) {
					found = true
				}
			}
		case *ast.IncDecStmt:
			if isPkgVar(x.X) {
				found = true
			}
		case *ast.UnaryExpr:
			if x.Op == token.AND && isPkgVar(x.X) {
				found = true
			}
		}
		return true
	})
	return found
}

// usesPkgVar reports whether the statement's own expressions (not nested
// blocks or function literals) mention a package-level variable.
func usesPkgVar(info *types.Info, n ast.Node) bool {
	found := false
	ast.Inspect(n, func(x ast.Node) bool {
		if found {
			return false
		}
		switch x := x.(type) {
		case *ast.FuncLit, *ast.BlockStmt:
			return false
		case *ast.Ident:
			if v, ok := info.Uses[x].(*types.Var); ok && !v.IsField() && v.Pkg() != nil && v.Parent() == v.Pkg().Scope() {
				found = true
			}
		}
		return true
	})
	return found
}

// isPkgVarIdent reports whether the identifier denotes a package-level variable.
func isPkgVarIdent(info *types.Info, id *ast.Ident) bool {
	v, ok := info.Uses[id].(*types.Var)
	return ok && !v.IsField() && v.Pkg() != nil && v.Parent() == v.Pkg().Scope()
}

// rootIdent returns the identifier at the root of x.f, x[i], (*x) chains.
func rootIdent(e ast.Expr) *ast.Ident {
	for {
		switch x := e.(type) {
		case *ast.Ident:
			return x
		case *ast.SelectorExpr:
			e = x.X
		case *ast.IndexExpr:
			e = x.X
		case *ast.StarExpr:
			e = x.X
		case *ast.ParenExpr:
			e = x.X
		default:
			return nil
		}
	}
}

// aliasFuncs holds the functions that hand out package-level storage: their
// body slices or takes the address of a package-level variable (directly, not in
// a call argument only) and they return a slice, pointer or map. A caller of
// such a function holds a view of storage every other caller shares (a scratch
// buffer reused between calls), so the point right after the call is an
// interesting scheduling point as well.
var aliasFuncs = map[string]bool{}

func findAliasFuncs(p *packages.Package) {
	info := p.TypesInfo
	for _, file := range p.Syntax {
		for _, d := range file.Decls {
			fd, ok := d.(*ast.FuncDecl)
			if !ok || fd.Body == nil || fd.Type.Results == nil {
				continue
			}
			obj, _ := info.Defs[fd.Name].(*types.Func)
			if obj == nil {
				continue
			}
			refResult := false
			sig := obj.Type().(*types.Signature)
			for i := 0; i < sig.Results().Len(); i++ {
				switch sig.Results().At(i).Type().Underlying().(type) {
				case *types.Slice, *types.Pointer, *types.Map:
					refResult = true
				}
			}
			if !refResult {
				continue
			}
			takes := false
			ast.Inspect(fd.Body, func(n ast.Node) bool {
				switch x := n.(type) {
				case *ast.SliceExpr:
					if id := rootIdent(x.X); id != nil && isPkgVarIdent(info, id) {
						takes = true
					}
				case *ast.UnaryExpr:
					if x.Op == token.AND {
						if id := rootIdent(x.X); id != nil && isPkgVarIdent(info, id) {
							takes = true
						}
					}
				}
				return !takes
			})
			if takes {
				aliasFuncs[obj.FullName()] = true
			}
		}
	}
}

// passesPkgStorage reports whether the call hands package-level storage to its
// callee by reference: g[i:j] of a package-level array or slice, &g / &g.f /
// &g[i], or a package-level variable of slice, map or pointer type. The callee
// (often not rewritten: strconv.AppendInt, copy, append, binary.PutUvarint,
// (*bytes.Buffer).Write ...) may write it, so the point right after the call is
// an interesting scheduling point.
func passesPkgStorage(info *types.Info, call *ast.CallExpr) bool {
	var callee *ast.Ident
	switch f := call.Fun.(type) {
	case *ast.Ident:
		callee = f
	case *ast.SelectorExpr:
		callee = f.Sel
	}
	if callee != nil {
		if fn, ok := info.Uses[callee].(*types.Func); ok && aliasFuncs[fn.FullName()] {
			return true
		}
	}
	exprs := append([]ast.Expr{}, call.Args...)
	if sel, ok := call.Fun.(*ast.SelectorExpr); ok {
		exprs = append(exprs, sel.X) // method receiver
	}
	for _, a := range exprs {
		switch x := a.(type) {
		case *ast.SliceExpr:
			if id := rootIdent(x.X); id != nil && isPkgVarIdent(info, id) {
				return true
			}
		case *ast.UnaryExpr:
			if x.Op == token.AND {
				if id := rootIdent(x.X); id != nil && isPkgVarIdent(info, id) {
					return true
				}
			}
		default:
			if id := rootIdent(a); id != nil && isPkgVarIdent(info, id) {
				if tv, ok := info.Types[a]; ok && tv.Type != nil {
					switch tv.Type.Underlying().(type) {
					case *types.Slice, *types.Map, *types.Pointer:
						return true
					}
				}
			}
		}
	}
	return false
}

func passGYield(p *packages.Package, file *ast.File, f *fileRW) {
	info := p.TypesInfo
	fn := ""
	// calls that pass package-level storage by reference and whose single result
	// is an argument of another call: outer(inner(g[:0], v)) becomes
	// outer(verifsim.After(inner(g[:0], v), site)) - a yield between the two calls
	wrapped := map[*ast.CallExpr]bool{}
	ast.Inspect(file, func(x ast.Node) bool {
		if d, ok := x.(*ast.FuncDecl); ok {
			fn = d.Name.Name
		}
		outer, ok := x.(*ast.CallExpr)
		if !ok {
			return true
		}
		for _, a := range outer.Args {
			in, ok := a.(*ast.CallExpr)
			if !ok || wrapped[in] || !passesPkgStorage(info, in) {
				continue
			}
			tv, ok := info.Types[in]
			if !ok || tv.Type == nil || tv.IsType() || tv.Value != nil {
				continue // constant expressions (len of an array) must stay constant
			}
			if id, ok := in.Fun.(*ast.Ident); ok {
				if _, isBuiltin := info.Uses[id].(*types.Builtin); isBuiltin && (id.Name == "len" || id.Name == "cap") {
					continue // pure reads
				}
			}
			if _, isTuple := tv.Type.(*types.Tuple); isTuple {
				continue
			}
			if b, ok := tv.Type.Underlying().(*types.Basic); ok && b.Info()&types.IsUntyped != 0 {
				continue
			}
			wrapped[in] = true
			id := newSite(p, "after_call_with_global_ref", in.Pos(), fn)
			f.ins(in.Pos(), "verifsim.After(")
			f.ins(in.End(), fmt.Sprintf(", %d)", id))
		}
		return true
	})
	fn = ""
	doList := func(list []ast.Stmt) {
		for _, st := range list {
			inner := st
			if l, ok := st.(*ast.LabeledStmt); ok {
				inner = l.Stmt
			}
			switch inner.(type) {
			case *ast.CaseClause, *ast.CommClause, *ast.EmptyStmt, *ast.DeclStmt:
				continue
			}
			// headers of compound statements count; their bodies are separate lists
			var hdr []ast.Node
			switch x := inner.(type) {
			case *ast.IfStmt:
				if x.Init != nil {
					hdr = append(hdr, x.Init)
				}
				hdr = append(hdr, x.Cond)
			case *ast.ForStmt:
				if x.Init != nil {
					hdr = append(hdr, x.Init)
				}
				if x.Cond != nil {
					hdr = append(hdr, x.Cond)
				}
			case *ast.RangeStmt:
				hdr = append(hdr, x.X)
			case *ast.SwitchStmt:
				if x.Init != nil {
					hdr = append(hdr, x.Init)
				}
				if x.Tag != nil {
					hdr = append(hdr, x.Tag)
				}
			case *ast.TypeSwitchStmt:
				hdr = append(hdr, x.Assign)
			case *ast.BlockStmt, *ast.SelectStmt:
			default:
				hdr = append(hdr, inner)
			}
			hit, wr := false, false
			for _, h := range hdr {
				if usesPkgVar(info, h) {
					hit = true
				}
				if writesPkgVar(info, h) {
					wr = true
				}
			}
			switch y := inner.(type) {
			case *ast.ExprStmt, *ast.AssignStmt:
				after := false
				ast.Inspect(y, func(n ast.Node) bool {
					switch c := n.(type) {
					case *ast.FuncLit:
						return false
					case *ast.CallExpr:
						if id, ok := c.Fun.(*ast.Ident); ok && id.Name == "panic" {
							return false
						}
						if passesPkgStorage(info, c) {
							after = true
						}
					}
					return true
				})
				if after {
					id := newSite(p, "after_stmt_with_global_ref", st.End(), fn)
					f.ins(st.End(), fmt.Sprintf("\nverifsim.YieldW(%d)", id))
				}
			}
			if wr {
				id := newSite(p, "global_write", st.Pos(), fn)
				f.ins(st.Pos(), fmt.Sprintf("verifsim.YieldW(%d)\n", id))
			} else if hit {
				id := newSite(p, "global_access", st.Pos(), fn)
				f.ins(st.Pos(), fmt.Sprintf("verifsim.YieldG(%d)\n", id))
			}
		}
	}
	ast.Inspect(file, func(x ast.Node) bool {
		switch x := x.(type) {
		case *ast.FuncDecl:
			fn = x.Name.Name
			if x.Body != nil {
				id := newSite(p, "func_entry", x.Body.Lbrace, fn)
				f.ins(x.Body.Lbrace+1, fmt.Sprintf("\nverifsim.YieldG(%d)\n", id))
			}
		case *ast.BlockStmt:
			doList(x.List)
		case *ast.CaseClause:
			doList(x.Body)
		case *ast.CommClause:
			doList(x.Body)
		}
		return true
	})
}

// ---------------------------------------------------------------- mapacc pass

func passMapAcc(p *packages.Package, file *ast.File, f *fileRW, withMapPass bool) {
	info := p.TypesInfo
	fn := ""
	writes := map[*ast.IndexExpr]bool{}
	type span struct{ from, to token.Pos }
	var skip []span
	ast.Inspect(file, func(x ast.Node) bool {
		switch x := x.(type) {
		case *ast.AssignStmt:
			for _, l := range x.Lhs {
				if ix, ok := l.(*ast.IndexExpr); ok {
					writes[ix] = true
				}
			}
		case *ast.IncDecStmt:
			if ix, ok := x.X.(*ast.IndexExpr); ok {
				writes[ix] = true
			}
		case *ast.RangeStmt:
			if withMapPass && mapType(info, x.X) != nil {
				// the header of a rewritten map range is replaced wholesale from the original text
				from := x.Pos()
				skip = append(skip, span{from, x.Body.Lbrace})
			}
		}
		return true
	})
	inSkip := func(pos token.Pos) bool {
		for _, s := range skip {
			if pos >= s.from && pos <= s.to {
				return true
			}
		}
		return false
	}
	ast.Inspect(file, func(x ast.Node) bool {
		switch x := x.(type) {
		case *ast.FuncDecl:
			fn = x.Name.Name
		case *ast.IndexExpr:
			if mapType(info, x.X) == nil || inSkip(x.Pos()) {
				return true
			}
			id := newSite(p, "map_access", x.Pos(), fn)
			w := "MapR"
			if writes[x] {
				w = "MapW"
			}
			f.ins(x.X.Pos(), "verifsim."+w+"(")
			f.ins(x.X.End(), fmt.Sprintf(", %d)", id))
		case *ast.CallExpr:
			if id, ok := x.Fun.(*ast.Ident); ok && id.Name == "delete" && len(x.Args) == 2 {
				if _, isBuiltin := info.Uses[id].(*types.Builtin); isBuiltin && mapType(info, x.Args[0]) != nil && !inSkip(x.Pos()) {
					sid := newSite(p, "map_access", x.Pos(), fn)
					f.ins(x.Args[0].Pos(), "verifsim.MapW(")
					f.ins(x.Args[0].End(), fmt.Sprintf(", %d)", sid))
				}
			}
		}
		return true
	})
}
