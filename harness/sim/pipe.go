package sim

import (
	"errors"
	"io"

	"verif/harness/tape"
)

// Stall kinds: transient empty reads although more data will come.
const (
	StallNone    = 0
	StallNil     = 1 // (0, nil)
	StallEOF     = 2 // (0, io.EOF) -- "some streams return EOF even if there will be more data"
	StallTimeout = 3 // (0, ErrTimeout)
)

var StallNames = []string{"none", "stall_nil", "stall_eof", "stall_timeout"}

type timeoutErr struct{}

func (timeoutErr) Error() string   { return "simulated read timeout" }
func (timeoutErr) Timeout() bool   { return true }
func (timeoutErr) Temporary() bool { return true }

var ErrTimeout error = timeoutErr{}

// ErrLivelock is panicked when a consumer keeps reading an exhausted stream.
var ErrLivelock = errors.New("sim: consumer spins on an exhausted stream (packet never delivered)")

// Stream is a single-threaded simulated byte stream: the writer side appends,
// the reader side is an io.Reader that consults the tape and/or an explicit
// fault plan on every call.
type Stream struct {
	Buf []byte
	Pos int

	T *tape.Tape // nil: no tape-driven faults
	// tape-driven fault rates: fault fires with probability Num/Den
	ShortNum, ShortDen int
	StallNum, StallDen int
	StallKinds         []int // kinds the tape may choose
	MaxConsecStall     int   // cap on consecutive stalls (0 = 3)

	// explicit plan (enumeration)
	StallAt     map[int]int // byte offset -> stall kind, fires StallRepeat times (default once) when Pos == offset
	StallRepeat int
	Bounds      map[int]bool // a read never crosses these offsets
	CutAt       int          // >=0: from this offset on, EOF forever

	Fired       map[string]int
	Reads       int
	consec      int
	spins       int
	SpinLimit   int // 0 = 1000
	MaxChunk    int // >0: upper bound on bytes per read (models 1-byte serial FIFOs)
	ReadSizes   []int
	KeepSizes   bool
	firedStalls map[int]int
}

func NewStream(t *tape.Tape) *Stream {
	return &Stream{T: t, CutAt: -1, Fired: map[string]int{}, firedStalls: map[int]int{}}
}

func (s *Stream) Write(p []byte) (int, error) {
	s.Buf = append(s.Buf, p...)
	return len(p), nil
}

func (s *Stream) note(n int) {
	if s.KeepSizes && len(s.ReadSizes) < 4096 {
		s.ReadSizes = append(s.ReadSizes, n)
	}
}

func (s *Stream) Read(p []byte) (int, error) {
	s.Reads++
	if len(p) == 0 {
		return 0, nil
	}
	end := len(s.Buf)
	if s.CutAt >= 0 && s.CutAt < end {
		end = s.CutAt
	}
	avail := end - s.Pos
	if avail <= 0 {
		s.spins++
		lim := s.SpinLimit
		if lim == 0 {
			lim = 1000
		}
		if s.spins > lim {
			panic(ErrLivelock)
		}
		if s.CutAt >= 0 && s.CutAt <= len(s.Buf) {
			s.Fired["cut_eof"]++
		}
		s.note(0)
		return 0, io.EOF
	}
	// explicit stall at this offset, once
	if k, ok := s.StallAt[s.Pos]; ok {
		rep := s.StallRepeat
		if rep < 1 {
			rep = 1
		}
		if s.firedStalls[s.Pos] < rep {
			s.firedStalls[s.Pos]++
			return s.stall(k)
		}
	}
	// tape-driven stall
	if s.T != nil && s.StallDen > 0 && len(s.StallKinds) > 0 {
		maxc := s.MaxConsecStall
		if maxc == 0 {
			maxc = 3
		}
		fire := s.T.Chance(s.StallNum, s.StallDen)
		kind := s.StallKinds[s.T.Draw(len(s.StallKinds))]
		if fire && s.consec < maxc {
			s.consec++
			return s.stall(kind)
		}
	}
	s.consec = 0
	n := len(p)
	if n > avail {
		n = avail
	}
	if s.MaxChunk > 0 && n > s.MaxChunk {
		n = s.MaxChunk
	}
	nb := n
	for b := range s.Bounds {
		if b > s.Pos && b < s.Pos+nb {
			nb = b - s.Pos
		}
	}
	if nb < n {
		n = nb
		s.Fired["split"]++
	}
	if s.T != nil && s.ShortDen > 0 {
		fire := s.T.Chance(s.ShortNum, s.ShortDen)
		cut := s.T.Draw(n) // fixed draws per read
		if fire && n > 1 {
			m := n - cut
			if m < 1 {
				m = 1
			}
			if m < n {
				s.Fired["short"]++
			}
			n = m
		}
	}
	copy(p, s.Buf[s.Pos:s.Pos+n])
	s.Pos += n
	s.note(n)
	return n, nil
}

func (s *Stream) stall(kind int) (int, error) {
	s.Fired[StallNames[kind]]++
	s.note(0)
	switch kind {
	case StallNil:
		return 0, nil
	case StallEOF:
		return 0, io.EOF
	default:
		return 0, ErrTimeout
	}
}

// Remaining is the number of bytes written but not yet read.
func (s *Stream) Remaining() int { return len(s.Buf) - s.Pos }
