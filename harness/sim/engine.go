// Package sim holds what every engine shares: the run result, the worker main
// loop (seeded search, shrinking, replay files, known findings) and the
// simulated byte-stream transport.
package sim

import (
	"encoding/json"
	"flag"
	"fmt"
	"os"
	"path/filepath"
	"runtime/pprof"
	"sort"
	"strings"
	"time"

	"verif/harness/tape"
)

// Violation describes a property violation found in one run.
type Violation struct {
	Class     string `json:"class"`     // coarse class; shrinking keeps this fixed
	Signature string `json:"signature"` // specific input/site; matched against known findings
	Detail    string `json:"detail"`
}

// Result of one simulated run.
type Result struct {
	Violation  *Violation
	Trouble    string // harness trouble: never a violation
	Digest     string // digest of the event log
	Faults     map[string]int
	Probes     map[string]int
	Steps      int
	SimTimeNs  int64
	Nontrivial bool
	States     []string // abstract state keys visited (for distinct_states)
	Sample     any
	// Prelude: what the worker process did before this run and that the run's
	// outcome may depend on (e.g. earlier compilations in the same process); stored
	// in the replay file and re-executed before the tape in a fresh process
	Prelude any
}

func NewResult() *Result {
	return &Result{Faults: map[string]int{}, Probes: map[string]int{}}
}

// Engine is one property's simulated system + oracle.
type Engine interface {
	// Setup is called once per worker process.
	Setup(tier string) error
	// Run executes one simulated run whose every choice comes from t.
	Run(t *tape.Tape, keepLog bool) *Result
	// Strides are draws-per-operation hints for the shrinker.
	Strides() []int
}

// Replay is the replay file format.
type Replay struct {
	Property  string   `json:"property"`
	Engine    string   `json:"engine"`
	Seed      uint64   `json:"seed"`
	Run       uint64   `json:"run"`
	Tier      string   `json:"tier"`
	Tape      []uint32 `json:"tape"`
	OrigLen   int      `json:"orig_tape_len"`
	Class     string   `json:"class"`
	Signature string   `json:"signature"`
	Detail    string   `json:"detail"`
	Digest    string   `json:"digest"`
	Log       []string `json:"log,omitempty"`
	Sample    any      `json:"sample,omitempty"`
	Extra     any      `json:"extra,omitempty"`
}

// KnownFinding is one entry of /verif/known_findings.json.
type KnownFinding struct {
	Property string `json:"property"`
	Status   string `json:"status"` // "known" | "fixed"
	Match    string `json:"match"`  // exact violation signature, or prefix ending in '*'
	Commit   string `json:"commit,omitempty"`
	What     string `json:"what"`
}

func LoadKnown(path, prop string) []KnownFinding {
	b, err := os.ReadFile(path)
	if err != nil {
		return nil
	}
	var all []KnownFinding
	if json.Unmarshal(b, &all) != nil {
		return nil
	}
	var out []KnownFinding
	for _, k := range all {
		if k.Property == prop && k.Status == "known" {
			out = append(out, k)
		}
	}
	return out
}

func MatchKnown(ks []KnownFinding, sig string) *KnownFinding {
	for i := range ks {
		m := ks[i].Match
		if m == sig || (strings.HasSuffix(m, "*") && strings.HasPrefix(sig, strings.TrimSuffix(m, "*"))) {
			return &ks[i]
		}
	}
	return nil
}

// WorkerOut is what a worker process reports to the coordinator.
type WorkerOut struct {
	Property    string         `json:"property"`
	Runs        int            `json:"runs"`
	Steps       int64          `json:"steps"`
	SimTimeNs   int64          `json:"sim_time_ns"`
	Faults      map[string]int `json:"faults"`
	Probes      map[string]int `json:"probes"`
	Nontrivial  []string       `json:"nontrivial_digests"` // distinct digests of nontrivial runs
	States      []string       `json:"states"`
	Samples     []any          `json:"samples"`
	Violations  []string       `json:"violations"` // replay file paths
	Known       []string       `json:"known"`      // "what" of matched known findings
	Trouble     []string       `json:"trouble"`
	ShrinkExecs int            `json:"shrink_execs"`
	WallS       float64        `json:"wall_s"`
	Extra       map[string]any `json:"extra,omitempty"`
}

// WorkerMain is the main function of every worker binary.
//
//	worker -prop C25 -tier quick -seed 1 -first 0 -stride 16 -count 1000 -deadline 60s -out f.json
//	worker -prop C25 -replay file.json
var (
	prop     = flag.String("prop", "", "property id")
	tier     = flag.String("tier", "quick", "quick|thorough")
	seed     = flag.Uint64("seed", 1, "VERIF_SEED")
	first    = flag.Uint64("first", 0, "first run index")
	stride   = flag.Uint64("stride", 1, "run index stride")
	count    = flag.Int("count", 100, "max runs")
	deadline = flag.Duration("deadline", time.Minute, "wall clock budget")
	out      = flag.String("out", "", "result file")
	replay   = flag.String("replay", "", "replay file")
	replays  = flag.String("replaydir", "/verif/replays", "where to write replay files")
	known    = flag.String("known", "/verif/known_findings.json", "known findings file")
	digests  = flag.Bool("digests", false, "print one line per run with its digest (determinism self-test)")
	maxViol  = flag.Int("maxviol", 3, "stop after this many distinct unknown violations")
)

func WorkerMain(engines map[string]func() Engine) {
	if !flag.Parsed() {
		flag.Parse()
	}
	if pf := os.Getenv("VERIF_PROF"); pf != "" { // developer aid
		if f, err := os.Create(pf); err == nil {
			pprof.StartCPUProfile(f)
			defer pprof.StopCPUProfile()
		}
	}

	mk, ok := engines[*prop]
	if !ok {
		fmt.Fprintf(os.Stderr, "worker: unknown property %q\n", *prop)
		os.Exit(2)
	}
	eng := mk()
	if err := eng.Setup(*tier); err != nil {
		fmt.Fprintf(os.Stderr, "worker: setup: %v\n", err)
		os.Exit(2)
	}

	if *replay != "" {
		os.Exit(doReplay(eng, *replay))
	}

	start := time.Now()
	wo := &WorkerOut{Property: *prop, Faults: map[string]int{}, Probes: map[string]int{}, Extra: map[string]any{}}
	kn := LoadKnown(*known, *prop)
	nontriv := map[string]bool{}
	states := map[string]bool{}
	seenSig := map[string]bool{}
	knownSeen := map[string]bool{}
	violating := 0
	for i := 0; i < *count; i++ {
		if time.Since(start) > *deadline {
			break
		}
		run := *first + uint64(i)**stride
		t := tape.NewGen(*seed, run)
		if sr, ok := eng.(interface{ SetRun(seed, run uint64) }); ok {
			sr.SetRun(*seed, run)
		}
		res := safeRun(eng, t, false)
		wo.Runs++
		wo.Steps += int64(res.Steps)
		wo.SimTimeNs += res.SimTimeNs
		for k, v := range res.Faults {
			wo.Faults[k] += v
		}
		for k, v := range res.Probes {
			wo.Probes[k] += v
		}
		if *digests {
			fmt.Printf("DIGEST run=%d %s\n", run, res.Digest)
		}
		if res.Nontrivial {
			nontriv[res.Digest] = true
		}
		for _, s := range res.States {
			states[s] = true
		}
		if len(wo.Samples) < 3 && res.Sample != nil && (res.Nontrivial || i > 20) {
			wo.Samples = append(wo.Samples, res.Sample)
		}
		if res.Trouble != "" {
			wo.Trouble = append(wo.Trouble, fmt.Sprintf("run %d: %s", run, res.Trouble))
			if len(wo.Trouble) > 5 {
				break
			}
			continue
		}
		if res.Violation == nil {
			continue
		}
		if violating > 12 {
			break // the tree is clearly broken; enough witnesses
		}
		// a violation whose unminimised signature is already a listed known
		// finding is not minimised again
		if k := MatchKnown(kn, res.Violation.Signature); k != nil {
			if !knownSeen[k.What] {
				knownSeen[k.What] = true
				wo.Known = append(wo.Known, k.What)
			}
			continue
		}
		// Shrink, keeping the violation class.
		class := res.Violation.Class
		rec := t.Record()
		min, used := tape.Shrink(rec, func(c []uint32) bool {
			// keep the class, and never slide into a listed known finding: a new
			// violation of the same class must not be minimised into a listed one
			r := safeRun(eng, tape.NewReplay(c), false)
			return r.Violation != nil && r.Violation.Class == class && MatchKnown(kn, r.Violation.Signature) == nil
		}, shrinkBudget(eng, *tier), eng.Strides()...)
		wo.ShrinkExecs += used
		fr := safeRun(eng, tape.NewReplay(min), true)
		if fr.Violation == nil || fr.Violation.Class != class {
			// should not happen: the shrinker only keeps failing candidates
			wo.Trouble = append(wo.Trouble, fmt.Sprintf("run %d: minimised tape does not reproduce class %s", run, class))
			continue
		}
		if k := MatchKnown(kn, fr.Violation.Signature); k != nil {
			if !knownSeen[k.What] {
				knownSeen[k.What] = true
				wo.Known = append(wo.Known, k.What)
			}
			continue
		}
		violating++
		if seenSig[fr.Violation.Signature] {
			continue
		}
		seenSig[fr.Violation.Signature] = true
		rp := &Replay{Property: *prop, Engine: *prop, Seed: *seed, Run: run, Tier: *tier, Tape: min, OrigLen: len(rec),
			Class: fr.Violation.Class, Signature: fr.Violation.Signature, Detail: fr.Violation.Detail, Digest: fr.Digest, Sample: fr.Sample, Extra: fr.Prelude}
		if l, ok := fr.Sample.(interface{ LogLines() []string }); ok {
			rp.Log = l.LogLines()
		}
		path := filepath.Join(*replays, fmt.Sprintf("%s-%d-%d.json", *prop, *seed, run))
		os.MkdirAll(*replays, 0o755)
		b, _ := json.MarshalIndent(rp, "", " ")
		if err := os.WriteFile(path, b, 0o644); err != nil {
			wo.Trouble = append(wo.Trouble, "cannot write replay: "+err.Error())
			continue
		}
		wo.Violations = append(wo.Violations, path)
		if len(wo.Violations) >= *maxViol {
			break
		}
	}
	for d := range nontriv {
		wo.Nontrivial = append(wo.Nontrivial, d)
	}
	sort.Strings(wo.Nontrivial)
	for s := range states {
		wo.States = append(wo.States, s)
	}
	sort.Strings(wo.States)
	if x, ok := eng.(interface{ Extra() map[string]any }); ok {
		wo.Extra = x.Extra()
	}
	wo.WallS = time.Since(start).Seconds()
	b, _ := json.Marshal(wo)
	if *out != "" {
		if err := os.WriteFile(*out, b, 0o644); err != nil {
			fmt.Fprintln(os.Stderr, "worker:", err)
			os.Exit(2)
		}
	} else {
		os.Stdout.Write(b)
		fmt.Println()
	}
}

func shrinkBudget(eng Engine, tier string) int {
	if b, ok := eng.(interface{ ShrinkBudget() int }); ok {
		return b.ShrinkBudget()
	}
	if tier == "thorough" {
		return 6000
	}
	return 2500
}

func safeRun(eng Engine, t *tape.Tape, keep bool) (res *Result) {
	defer func() {
		if r := recover(); r != nil {
			if res == nil {
				res = NewResult()
			}
			if hp, ok := r.(HarnessPanic); ok {
				res.Trouble = string(hp)
				return
			}
			res = NewResult()
			res.Trouble = fmt.Sprintf("engine panic: %v", r)
		}
	}()
	return eng.Run(t, keep)
}

// ScratchParent is where engines create their scratch directories: the worker
// binary's own directory when that is the coordinator's run directory (which the
// coordinator removes on exit, also after a worker was killed at the deadline),
// else the system default.
func ScratchParent() string {
	if exe, err := os.Executable(); err == nil {
		if d := filepath.Dir(exe); strings.Contains(filepath.Base(d), "verif-run.") {
			return d
		}
	}
	return ""
}

// HarnessPanic is panicked by engines for harness trouble.
type HarnessPanic string

func doReplay(eng Engine, path string) int {
	b, err := os.ReadFile(path)
	if err != nil {
		fmt.Fprintln(os.Stderr, "replay:", err)
		return 2
	}
	var rp Replay
	if err := json.Unmarshal(b, &rp); err != nil {
		fmt.Fprintln(os.Stderr, "replay:", err)
		return 2
	}
	if rp.Tier != "" {
		// bounds (history lengths, size limits) depend on the tier the run was made in
		if err := eng.Setup(rp.Tier); err != nil {
			fmt.Fprintln(os.Stderr, "replay: setup:", err)
			return 2
		}
	}
	if sr, ok := eng.(interface{ SetRun(seed, run uint64) }); ok {
		sr.SetRun(rp.Seed, rp.Run)
	}
	if pr, ok := eng.(interface{ ReplayPrelude(extra any) }); ok && rp.Extra != nil {
		pr.ReplayPrelude(rp.Extra)
	}
	res := safeRun(eng, tape.NewReplay(rp.Tape), true)
	if res.Trouble != "" {
		fmt.Printf("REPLAY trouble: %s\n", res.Trouble)
		return 2
	}
	if res.Violation == nil {
		fmt.Printf("REPLAY no violation (recorded class=%s digest=%s, got digest=%s)\n", rp.Class, rp.Digest, res.Digest)
		return 0
	}
	same := res.Violation.Class == rp.Class && res.Digest == rp.Digest
	fmt.Printf("REPLAY class=%s signature=%q digest=%s same_as_recorded=%v\n%s\n", res.Violation.Class, res.Violation.Signature, res.Digest, same, res.Violation.Detail)
	if l, ok := res.Sample.(interface{ LogLines() []string }); ok {
		for _, s := range l.LogLines() {
			fmt.Println("  ", s)
		}
	}
	if !same {
		return 3
	}
	return 1
}
