package tape

// Shrink minimises a failing tape. fails must re-execute the system with the
// candidate in replay mode and report whether the *same violation class*
// reproduces. budget bounds the number of re-executions. strides are op sizes
// (draws per operation) worth trying as deletion granularities.
func Shrink(rec []uint32, fails func([]uint32) bool, budget int, strides ...int) ([]uint32, int) {
	cur := trimZeros(rec)
	used := 0
	try := func(c []uint32) bool {
		if used >= budget {
			return false
		}
		used++
		c = trimZeros(c)
		if fails(c) {
			cur = c
			return true
		}
		return false
	}
	for round := 0; round < 8 && used < budget; round++ {
		before := clone(cur)
		// (a) truncate: shortest failing prefix by bisection then linear tail.
		lo, hi := 0, len(cur)
		for lo < hi && used < budget {
			mid := (lo + hi) / 2
			if try(clone(cur[:mid])) {
				hi = len(cur)
				if hi > mid {
					hi = mid
				}
			} else {
				lo = mid + 1
			}
		}
		// (b) delete spans.
		sizes := []int{}
		for s := len(cur) / 2; s >= 1; s /= 2 {
			sizes = append(sizes, s)
		}
		for _, st := range strides {
			if st > 0 {
				sizes = append(sizes, st*4, st*2, st)
			}
		}
		for _, sz := range sizes {
			if sz < 1 {
				continue
			}
			for i := 0; i+sz <= len(cur) && used < budget; {
				c := append(clone(cur[:i]), cur[i+sz:]...)
				if !try(c) {
					i += sz
				}
			}
		}
		// (c) zero blocks then single entries.
		for sz := 8; sz >= 1; sz /= 2 {
			for i := 0; i < len(cur) && used < budget; i += sz {
				c := clone(cur)
				ch := false
				for j := i; j < i+sz && j < len(c); j++ {
					if c[j] != 0 {
						c[j] = 0
						ch = true
					}
				}
				if ch {
					try(c)
				}
			}
		}
		// (d) reduce entries.
		for i := 0; i < len(cur) && used < budget; i++ {
			for i < len(cur) && cur[i] > 0 && used < budget {
				c := clone(cur)
				c[i] = cur[i] / 2
				if try(c) {
					continue
				}
				c = clone(cur)
				c[i] = cur[i] - 1
				if !try(c) {
					break
				}
			}
		}
		if equal(before, cur) {
			break
		}
	}
	return cur, used
}

func clone(a []uint32) []uint32 {
	c := make([]uint32, len(a))
	copy(c, a)
	return c
}

func trimZeros(a []uint32) []uint32 {
	n := len(a)
	for n > 0 && a[n-1] == 0 {
		n--
	}
	return clone(a[:n])
}

func equal(a, b []uint32) bool {
	if len(a) != len(b) {
		return false
	}
	for i := range a {
		if a[i] != b[i] {
			return false
		}
	}
	return true
}
