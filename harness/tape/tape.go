// Package tape is the single source of nondeterminism of every simulated run.
//
// Generation mode: draws come from a PRNG seeded from (VERIF_SEED, run index)
// and are recorded. Replay mode: draws come from a recorded slice; past its end
// every draw is 0. Generators are written so that 0 is the simplest choice.
package tape

import "fmt"

type Tape struct {
	rec    []uint32
	replay bool
	pos    int
	s      uint64 // splitmix64 state
	// Limit, if > 0, aborts generation (draws return 0) after this many draws;
	// protects against runaway runs.
	Limit int
}

func Mix(seed uint64, run uint64) uint64 {
	x := seed*0x9E3779B97F4A7C15 ^ (run+0x632BE59BD9B4E019)*0xD1342543DE82EF95
	x ^= x >> 32
	x *= 0xDA942042E4DD58B5
	x ^= x >> 29
	return x
}

func NewGen(seed, run uint64) *Tape {
	return &Tape{s: Mix(seed, run)}
}

func NewReplay(rec []uint32) *Tape {
	c := make([]uint32, len(rec))
	copy(c, rec)
	return &Tape{rec: c, replay: true}
}

func (t *Tape) next() uint64 {
	t.s += 0x9E3779B97F4A7C15
	z := t.s
	z = (z ^ (z >> 30)) * 0xBF58476D1CE4E5B9
	z = (z ^ (z >> 27)) * 0x94D049BB133111EB
	return z ^ (z >> 31)
}

// Draw returns a value in [0,n). n<=1 returns 0 but still consumes a slot so
// that the number of draws per operation stays fixed.
func (t *Tape) Draw(n int) int {
	if n < 1 {
		n = 1
	}
	if t.replay {
		if t.pos >= len(t.rec) {
			t.pos++
			return 0
		}
		v := int(t.rec[t.pos])
		t.pos++
		if v >= n {
			v %= n
		}
		return v
	}
	var v int
	if t.Limit > 0 && len(t.rec) >= t.Limit {
		v = 0
	} else {
		v = int(t.next() % uint64(n))
	}
	t.rec = append(t.rec, uint32(v))
	t.pos++
	return v
}

// Chance is true with probability num/den; the value 0 always means false.
func (t *Tape) Chance(num, den int) bool {
	if num >= den {
		num = den - 1
	}
	return t.Draw(den) >= den-num
}

// Range returns a value in [lo,hi] with lo the simplest.
func (t *Tape) Range(lo, hi int) int {
	if hi < lo {
		hi = lo
	}
	return lo + t.Draw(hi-lo+1)
}

// Pick returns an index biased by weights; index 0 is the simplest.
func (t *Tape) Pick(weights ...int) int {
	sum := 0
	for _, w := range weights {
		sum += w
	}
	v := t.Draw(sum)
	for i, w := range weights {
		if v < w {
			return i
		}
		v -= w
	}
	return 0
}

// Pos is the number of draws made so far.
func (t *Tape) Pos() int { return t.pos }

// Exhausted reports that a replay tape has been read past its end.
func (t *Tape) Exhausted() bool { return t.replay && t.pos >= len(t.rec) }

// Record returns the draws made (generation) or the slice being replayed,
// trimmed to what was actually consumed.
func (t *Tape) Record() []uint32 {
	if t.replay {
		n := t.pos
		if n > len(t.rec) {
			n = len(t.rec)
		}
		c := make([]uint32, n)
		copy(c, t.rec[:n])
		return c
	}
	c := make([]uint32, len(t.rec))
	copy(c, t.rec)
	return c
}

// Log is an event log whose digest is part of the replay check. It never
// draws and never reads a clock.
type Log struct {
	h     uint64
	n     int
	Keep  bool
	Lines []string
}

func (l *Log) Add(s string) {
	h := l.h
	if l.n == 0 {
		h = 14695981039346656037
	}
	for i := 0; i < len(s); i++ {
		h ^= uint64(s[i])
		h *= 1099511628211
	}
	h ^= 0xff
	h *= 1099511628211
	l.h = h
	l.n++
	if l.Keep && len(l.Lines) < 4000 {
		l.Lines = append(l.Lines, s)
	}
}

func (l *Log) N() int { return l.n }

func (l *Log) Digest() string { return fmt.Sprintf("%016x", l.h) }
