module verif/harness

go 1.26.8

require wa-lang.org/wa v0.0.0

replace wa-lang.org/wa => /repo
