// Package wagen generates "driver" Wa programs for C11/C12: a set of typed
// slot arrays and one exported step(op,a,b,c) function whose cases move,
// copy, box, capture, append, reslice, link and drop reference-counted values.
//
// It is a structured generator (template + type holes), not a general program
// generator. Every operation is total (indices are reduced, nil is checked) and
// address-independent (hashes are content hashes; map walks are summed
// commutatively), so the same history must give the same results under every
// allocator behaviour. References only point "downward" in the level order
// (plus Node.next guarded by a strictly decreasing rank), so no operation can
// build a reference cycle (C12's precondition).
package wagen

import (
	"fmt"
	"strings"
)

// Rand is the generator's own choice source (a sub-PRNG derived from
// VERIF_SEED and the run block; never the run tape).
type Rand interface{ Draw(n int) int }

type kind int

const (
	kInt kind = iota
	kStr
	kSliceInt
	kSliceStr
	kMapIntStr
	kMapStrInt
	kNode
	kSliceNode
	kMapIntNode
	kSliceSliceInt
	kMapStrSliceInt
	kFuncInt
	kFuncStr
	kFuncNode
	kIface
	kSliceIface
	kStructVal
	kMapIntPair
	kSlicePair
	kArrStr
	kAny
	kSliceAny
	nKinds
)

type fam struct {
	k    kind
	name string // slot array name
	typ  string // Wa type
	zero string // expression clearing a slot
}

var kindInfo = map[kind][3]string{
	kInt:            {"sInt", "int", "0"},
	kStr:            {"sStr", "string", `""`},
	kSliceInt:       {"sSI", "[]int", "nil"},
	kSliceStr:       {"sSS", "[]string", "nil"},
	kMapIntStr:      {"sMIS", "map[int]string", "make(map[int]string)"},
	kMapStrInt:      {"sMSI", "map[string]int", "make(map[string]int)"},
	kNode:           {"sN", "*Node", "nil"},
	kSliceNode:      {"sSN", "[]*Node", "nil"},
	kMapIntNode:     {"sMIN", "map[int]*Node", "make(map[int]*Node)"},
	kSliceSliceInt:  {"sSSI", "[][]int", "nil"},
	kMapStrSliceInt: {"sMSS", "map[string][]int", "make(map[string][]int)"},
	kFuncInt:        {"sFI", "func() => int", "nil"},
	kFuncStr:        {"sFS", "func() => string", "nil"},
	kFuncNode:       {"sFN", "func() => *Node", "nil"},
	kIface:          {"sI", "Shape", "nil"},
	kSliceIface:     {"sSIf", "[]Shape", "nil"},
	kStructVal:      {"sV", "Pair", "Pair{}"},
	kMapIntPair:     {"sMIP", "map[int]Pair", "make(map[int]Pair)"},
	kSlicePair:      {"sSP", "[]Pair", "nil"},
	kArrStr:         {"sAS", "[3]string", "[3]string{}"},
	kAny:            {"sA", "interface{}", "nil"},
	kSliceAny:       {"sSA", "[]interface{}", "nil"},
}

// Driver is a generated program.
type Driver struct {
	Source string
	NOps   int
	Slots  int
	OpDesc []string // human-readable description per op number
	Kinds  []string
	// OpFams[i] lists the slot families (indices into Kinds) operation i touches;
	// FamOps is the inverse. Used to draw coherent histories (a "focus" family).
	OpFams [][]int
	FamOps [][]int
}

type gen struct {
	S     int
	fams  map[kind]*fam
	order []kind
	cases []string
	desc  []string
}

func (g *gen) has(k kind) bool { _, ok := g.fams[k]; return ok }

func (g *gen) slot(k kind, idx string) string {
	return fmt.Sprintf("%s[%s]", g.fams[k].name, idx)
}

// add registers one op; body must end by returning an i64.
func (g *gen) add(desc, body string) {
	g.cases = append(g.cases, body)
	g.desc = append(g.desc, desc)
}

// hashExpr returns a Wa expression hashing a value of kind k.
func hashExpr(k kind, e string) string {
	switch k {
	case kInt:
		return "i64(" + e + ")"
	case kStr:
		return "hStr(" + e + ")"
	case kSliceInt:
		return "hSI(" + e + ")"
	case kSliceStr:
		return "hSS(" + e + ")"
	case kMapIntStr:
		return "hMIS(" + e + ")"
	case kMapStrInt:
		return "hMSI(" + e + ")"
	case kNode:
		return "hN(" + e + ")"
	case kSliceNode:
		return "hSN(" + e + ")"
	case kMapIntNode:
		return "hMIN(" + e + ")"
	case kSliceSliceInt:
		return "hSSI(" + e + ")"
	case kMapStrSliceInt:
		return "hMSS(" + e + ")"
	case kFuncInt:
		return "hFI(" + e + ")"
	case kFuncStr:
		return "hFS(" + e + ")"
	case kFuncNode:
		return "hFN(" + e + ")"
	case kIface:
		return "hI(" + e + ")"
	case kSliceIface:
		return "hSIf(" + e + ")"
	case kStructVal:
		return "hV(" + e + ")"
	case kMapIntPair:
		return "hMIP(" + e + ")"
	case kSlicePair:
		return "hSP(" + e + ")"
	case kArrStr:
		return "hAS(" + e + ")"
	case kAny:
		return "hA(" + e + ")"
	case kSliceAny:
		return "hSA(" + e + ")"
	}
	panic("hashExpr")
}

const prelude = `
type Node :struct {
	val:   int
	rank:  int
	name:  string
	items: []int
	tags:  map[int]string
	next:  *Node
}

type Pair :struct {
	a: int
	s: string
	v: []int
	n: *Node
}

type Shape interface {
	Area() => int
	Label() => string
}

type Rect :struct {
	w, h: int
	tag:  string
}

type Poly :struct {
	pts: []int
	own: *Node
}

type Wrap :struct {
	p: Pair
}

func Rect.Area() => int { return this.w*this.h + len(this.tag) }
func Rect.Label() => string { return "rect:" + this.tag }
func Poly.Area() => int {
	s := 0
	for _, v := range this.pts {
		s += v
	}
	if this.own != nil {
		s += this.own.val
	}
	return s
}
func Poly.Label() => string {
	if this.own != nil {
		return "poly:" + this.own.name
	}
	return "poly"
}
func Wrap.Area() => int { return this.p.a + len(this.p.v) }
func Wrap.Label() => string { return "wrap:" + this.p.s }

type Closer interface {
	Close() => *Node
	Text(n: int) => string
	Rows() => []int
}

type Res :struct {
	name: string
	data: []int
}

func Res.Close() => *Node { return &Node{val: len(this.data), name: this.name + "#"} }
func Res.Text(n: int) => string { return this.name + itoa(n) }
func Res.Rows() => []int { return append(this.data, len(this.name)) }

func deferIface(c: Closer, k: int) => int {
	defer c.Close()
	if k%2 == 0 {
		defer c.Text(k)
	}
	defer c.Rows()
	return k + 1
}

func deferConcrete(r: *Res, k: int) => int {
	defer r.Close()
	defer r.Rows()
	defer itoa(k)
	defer mkPair(k, r.name, r.data, nil)
	return k + 2
}

func mix(h: i64, v: i64) => i64 {
	h = (h ^ v) * 1099511628211
	h = h ^ (h >> 29)
	return h
}

func hStr(s: string) => i64 {
	h: i64 = 1469598103
	for i := 0; i < len(s); i++ {
		h = mix(h, i64(s[i]))
	}
	return mix(h, i64(len(s)))
}

func hSI(s: []int) => i64 {
	h: i64 = 77
	for i, v := range s {
		h = mix(h, i64(v)+i64(i)*131)
	}
	return mix(h, i64(len(s)))
}

func hSS(s: []string) => i64 {
	h: i64 = 78
	for _, v := range s {
		h = mix(h, hStr(v))
	}
	return mix(h, i64(len(s)))
}

func hMIS(m: map[int]string) => i64 {
	h: i64 = 0
	for k, v := range m {
		h += mix(i64(k), hStr(v))
	}
	return mix(h, i64(len(m)))
}

func hMSI(m: map[string]int) => i64 {
	h: i64 = 0
	for k, v := range m {
		h += mix(hStr(k), i64(v))
	}
	return mix(h, i64(len(m)))
}

func hN(p: *Node) => i64 {
	h: i64 = 79
	n := 0
	for q := p; q != nil && n < 64; q = q.next {
		h = mix(h, i64(q.val))
		h = mix(h, i64(q.rank))
		h = mix(h, hStr(q.name))
		h = mix(h, hSI(q.items))
		if q.rank%2 == 1 {
			h = mix(h, hMIS(q.tags))
		}
		n++
	}
	return mix(h, i64(n))
}

func hSN(s: []*Node) => i64 {
	h: i64 = 80
	for _, v := range s {
		h = mix(h, hN(v))
	}
	return mix(h, i64(len(s)))
}

func hMIN(m: map[int]*Node) => i64 {
	h: i64 = 0
	for k, v := range m {
		h += mix(i64(k), hN(v))
	}
	return mix(h, i64(len(m)))
}

func hSSI(s: [][]int) => i64 {
	h: i64 = 81
	for _, v := range s {
		h = mix(h, hSI(v))
	}
	return mix(h, i64(len(s)))
}

func hMSS(m: map[string][]int) => i64 {
	h: i64 = 0
	for k, v := range m {
		h += mix(hStr(k), hSI(v))
	}
	return mix(h, i64(len(m)))
}

func hFI(f: func() => int) => i64 {
	if f == nil {
		return -7
	}
	return i64(f())
}

func hFS(f: func() => string) => i64 {
	if f == nil {
		return -8
	}
	return hStr(f())
}

func hFN(f: func() => *Node) => i64 {
	if f == nil {
		return -9
	}
	return hN(f())
}

func hI(x: Shape) => i64 {
	if x == nil {
		return -10
	}
	return mix(i64(x.Area()), hStr(x.Label()))
}

func hSIf(s: []Shape) => i64 {
	h: i64 = 82
	for _, v := range s {
		h = mix(h, hI(v))
	}
	return mix(h, i64(len(s)))
}

func hV(p: Pair) => i64 {
	h: i64 = 83
	h = mix(h, i64(p.a))
	h = mix(h, hStr(p.s))
	h = mix(h, hSI(p.v))
	h = mix(h, hN(p.n))
	return h
}

func hMIP(m: map[int]Pair) => i64 {
	h: i64 = 0
	for k, v := range m {
		h += mix(i64(k), hV(v))
	}
	return mix(h, i64(len(m)))
}

func hSP(s: []Pair) => i64 {
	h: i64 = 84
	for _, v := range s {
		h = mix(h, hV(v))
	}
	return mix(h, i64(len(s)))
}

func hAS(a: [3]string) => i64 {
	h: i64 = 85
	for _, v := range a {
		h = mix(h, hStr(v))
	}
	return h
}

func hA(x: interface{}) => i64 {
	switch v := x.(type) {
	case nil:
		return -11
	case int:
		return mix(1, i64(v))
	case string:
		return mix(2, hStr(v))
	case []int:
		return mix(3, hSI(v))
	case *Node:
		return mix(4, hN(v))
	case Pair:
		return mix(5, hV(v))
	case f64:
		return mix(6, i64(v*8))
	}
	return -12
}

func hMISx(m: map[int]string) => i64 {
	h: i64 = 0
	for k, v := range m {
		h += mix(i64(k), hStr(v))
	}
	return mix(h, i64(len(m)))
}

func hSA(s: []interface{}) => i64 {
	h: i64 = 86
	for _, v := range s {
		h = mix(h, hA(v))
	}
	return mix(h, i64(len(s)))
}

func mkPair(a: int, s: string, v: []int, n: *Node) => Pair {
	return Pair{a: a, s: s + "!", v: v, n: n}
}

func mkArr(s: string, t: string) => [3]string {
	return [3]string{s, t, s + t}
}

func twoStr(s: string, n: int) => (string, string) {
	if n%3 == 0 {
		return s, s + "0"
	}
	t := s + itoa(n)
	if n%3 == 1 {
		return t, s
	}
	return t + "z", t
}

func namedResult(s: string, n: int) => (r: string) {
	defer func() {
		if n%2 == 0 {
			r = r + "d"
		}
	}()
	r = s + "n"
	if n%5 == 0 {
		return "five"
	}
	return
}

func earlyExit(s: []int, t: string, n: int) => int {
	u := append(s, n)
	w := t + "e"
	if n%4 == 0 {
		return len(u)
	}
	x := u[:len(u)/2]
	if n%4 == 1 {
		return len(x) + len(w)
	}
	for i := range x {
		if x[i] == n {
			return i
		}
	}
	return len(w)
}

type Base :struct {
	id:   int
	note: string
	hist: []int
}

func Base.Describe() => string { return this.note + "#" + itoa(this.id) }
func Base.Push(v: int) { this.hist = append(this.hist, v) }

type Derived :struct {
	Base
	extra: string
	cb:    func(s: string) => string
}

type Describer interface {
	Describe() => string
}

// embedding through a pointer, through two levels, and of an interface
type PtrEmb :struct {
	*Base
	tag: string
}

type Deep :struct {
	Derived
	k: string
}

type IfEmb :struct {
	Describer
	pre: string
}

// named result changed by a deferred closure; two defers run in reverse order
func namedRes(s: string, n: int) => (r: string, l: []int) {
	defer func() {
		r = r + "d"
		l = append(l, len(r))
	}()
	defer func() {
		if n%2 == 0 {
			r = s + r
		}
	}()
	r = itoa(n)
	l = []int{n}
	return r + "x", l
}

// package-level variables with static addresses (the slot arrays are indexed dynamically)
global gStr: string
global gNode: *Node
global gSI: []int
global gAny: interface{}
global gFn: func() => int
global gHold: Holder
global gArr: [3]string

func clearGlobals() {
	gStr = ""
	gNode = nil
	gSI = nil
	gAny = nil
	gFn = nil
	gHold = Holder{}
	gArr[0] = ""
	gArr[1] = ""
	gArr[2] = ""
}

type Store :struct {
	names: [2]string
	nodes: [2]*Node
}

func Store.Snapshot() => [2]string { return this.names }
func Store.Nodes() => [2]*Node { return this.nodes }
func mkStore(s: string, t: string, v: int) => Store {
	return Store{names: [2]string{s + "0", t + "1"}, nodes: [2]*Node{&Node{val: v, name: s}, nil}}
}

type Texter interface {
	Text(n: int) => string
}

// single-value assertions from one interface type to another (they succeed for
// *Res and *Base); the asserted values die when the helper returns
func textOf(x: interface{}, n: int) => string {
	t := x.(Texter)
	return t.Text(n)
}

func descOf(x: interface{}) => string {
	d := x.(Describer)
	e := d.(interface{})
	return d.Describe() + e.(Describer).Describe()
}

// #wa:generic: one name, alternatives chosen by the argument types
#wa:generic joinInts joinNode
func joinAny(a: string, b: string) => string {
	return a + "+" + b
}

func joinInts(a: string, b: []int) => string {
	return a + "#" + itoa(len(b))
}

func joinNode(a: string, n: *Node) => string {
	if n == nil {
		return a + "@nil"
	}
	return a + "@" + n.name
}

// #wa:operator: + on a struct value with reference fields
#wa:operator + Tag_add
type Tag :struct {
	s: string
	v: []int
}

func Tag_add(x, y: Tag) => Tag {
	return Tag{s: x.s + y.s, v: append(append([]int{}, x.v...), y.v...)}
}

#wa:generic AppendInt
func Tag.Append(t: string) => *Tag {
	this.s += t
	return this
}

func Tag.AppendInt(n: int) => *Tag {
	this.v = append(this.v, n)
	return this
}

// a function returning a closure that captures its parameters
func mkAdder2(pre: string, acc: []int) => func(s: string) => string {
	return func(s: string) => string {
		acc = append(acc, len(s))
		return pre + s + itoa(len(acc))
	}
}

func lenOf(b: []byte) => int { return len(b) }
func upper1(s: string) => string {
	if len(s) == 0 {
		return s
	}
	return s[:1] + "U"
}

// the FIRST field selection of the function is a field address assigned to a
// loop-carried variable inside the loop
func loopFieldAddr(p: *Node, n: int) => int {
	q: *int
	s := 0
	for i := 0; i < n; i++ {
		if i%2 == 0 {
			q = &p.rank
		} else {
			q = &p.val
		}
		s += *q
	}
	return s
}

func loopElemAddr(v: []Pair, n: int) => int {
	q: *int
	s := 0
	for i := 0; i < n && len(v) > 0; i++ {
		q = &v[i%len(v)].a
		s += *q
	}
	return s
}

func catAny(xs: ...interface{}) => string {
	r := ""
	for _, x := range xs {
		switch v := x.(type) {
		case string:
			r += v
		case int:
			r += itoa(v)
		case []int:
			r += itoa(len(v))
		case *Base:
			r += v.note
		}
	}
	return r
}

type Multi interface {
	Split(n: int) => (string, []int, *Node)
}

func Base.Split(n: int) => (string, []int, *Node) {
	return this.note + itoa(n), append(this.hist, n), &Node{val: n, name: this.note}
}

type SS :struct {
	x: string
	y: string
	z: []int
}

func hSSv(v: SS) => i64 {
	return mix(mix(hStr(v.x), hStr(v.y)), hSI(v.z))
}

type K2 :struct {
	p: string
	q: string
}

type Strs :[]string

func Strs.Join() => string {
	r := ""
	for _, x := range *this {
		r += x
	}
	return r
}

func pick3(n: int, a: string, b: string, c: string) => string {
	switch n % 3 {
	case 0:
		return a
	case 1:
		return b
	}
	return c
}

func firstUpper(s: string, n: int) => string {
	for i, r := range s {
		t := s[:i]
		if int(r)%7 == n%7 {
			return t + "^"
		}
		if i > 20 {
			break
		}
	}
	return s + "$"
}

func c0(c: Closer) => int {
	return len(c.Rows())
}

func joinAll(sep: string, xs: ...string) => string {
	r := ""
	for i, x := range xs {
		if i > 0 {
			r += sep
		}
		r += x
	}
	return r
}

func sumAll(xs: ...int) => int {
	t := 0
	for _, x := range xs {
		t += x
	}
	return t
}

func recur(s: string, v: []int, n: int) => string {
	if n <= 0 {
		return s
	}
	if n%3 == 0 {
		return recur(s+"r", v[:len(v)/2], n-1) + itoa(len(v))
	}
	t := append(v, n)
	return recur(s, t, n-1)
}

func mkAdder(base: string) => func(x: string) => string {
	n := 0
	return func(x: string) => string {
		n++
		return base + x + itoa(n)
	}
}

type Holder :struct {
	arr:  [2]string
	fn:   func() => int
	any:  interface{}
	in:   Pair
	rows: [][]int
}

func hH(h: *Holder) => i64 {
	if h == nil {
		return -21
	}
	r: i64 = 90
	r = mix(r, hStr(h.arr[0]))
	r = mix(r, hStr(h.arr[1]))
	if h.fn != nil {
		r = mix(r, i64(h.fn()))
	}
	r = mix(r, hA(h.any))
	r = mix(r, hV(h.in))
	r = mix(r, hSSI(h.rows))
	return r
}

func itoa(v: int) => string {
	if v == 0 {
		return "0"
	}
	neg := v < 0
	if neg {
		v = -v
	}
	b: []byte
	for v > 0 {
		b = append(b, byte('0'+v%10))
		v /= 10
	}
	if neg {
		b = append(b, '-')
	}
	for i, j := 0, len(b)-1; i < j; i, j = i+1, j-1 {
		b[i], b[j] = b[j], b[i]
	}
	return string(b)
}
`

// Generate builds one driver. All families are optional except int, string
// and []int; which others are present is drawn from r.
func Generate(r Rand) *Driver {
	g := &gen{S: 3 + r.Draw(2), fams: map[kind]*fam{}}
	want := map[kind]bool{kInt: true, kStr: true, kSliceInt: true}
	for k := kind(0); k < nKinds; k++ {
		if r.Draw(10) < 6 {
			want[k] = true
		}
	}
	// dependencies
	for _, k := range []kind{kSliceNode, kMapIntNode, kFuncNode} {
		if want[k] {
			want[kNode] = true
		}
	}
	if want[kSliceIface] {
		want[kIface] = true
	}
	if want[kMapIntPair] || want[kSlicePair] {
		want[kStructVal] = true
	}
	if want[kSliceAny] {
		want[kAny] = true
	}
	for k := kind(0); k < nKinds; k++ {
		if want[k] {
			in := kindInfo[k]
			g.fams[k] = &fam{k: k, name: in[0], typ: in[1], zero: in[2]}
			g.order = append(g.order, k)
		}
	}
	g.genericOps()
	g.kindOps()
	g.formOps()
	g.formOps2()
	g.formOps3()
	g.formOps4()
	return g.emit()
}

func (g *gen) genericOps() {
	for _, k := range g.order {
		f := g.fams[k]
		A, B := f.name+"[a]", f.name+"[b]"
		h := hashExpr(k, A)
		g.add("copy "+f.typ, fmt.Sprintf("%s = %s\nreturn %s", A, B, h))
		g.add("clear "+f.typ, fmt.Sprintf("%s = %s\nreturn 1", A, f.zero))
		g.add("hash "+f.typ, "return "+h)
		g.add("through-call "+f.typ, fmt.Sprintf("%s = id_%s(%s)\nreturn %s", A, f.name, B, h))
		g.add("swap via two results "+f.typ, fmt.Sprintf("x, y := pair_%s(%s, %s)\n%s = x\n%s = y\nreturn %s", f.name, A, B, A, B, h))
		g.add("local copy, conditional store, scope exit "+f.typ, fmt.Sprintf("{\nt := %s\nu := t\nif c%%2 == 1 {\n%s = u\n}\n}\nreturn %s", A, B, hashExpr(k, B)))
		g.add("deferred store "+f.typ, fmt.Sprintf("defer_%s(a, b%%%d)\nreturn %s", f.name, g.S, h))
		g.add("overwrite loop "+f.typ, fmt.Sprintf("for i := 0; i < 3; i++ {\nt := %s\n%s = %s\n%s = t\n}\nreturn %s", A, A, B, B, h))
	}
}

func (g *gen) kindOps() {
	S := g.slot
	if g.has(kInt) {
		g.add("int set", S(kInt, "a")+" = b*7 + c\nreturn i64("+S(kInt, "a")+")")
	}
	// strings
	g.add("string concat", fmt.Sprintf("%s = %s + \"-\" + %s\nif len(%s) > 200 {\n%s = %s[:50]\n}\nreturn hStr(%s)", S(kStr, "a"), S(kStr, "b"), S(kStr, "c"), S(kStr, "a"), S(kStr, "a"), S(kStr, "a"), S(kStr, "a")))
	g.add("string from int", fmt.Sprintf("%s = \"n\" + itoa(b*31+c)\nreturn hStr(%s)", S(kStr, "a"), S(kStr, "a")))
	g.add("substring", fmt.Sprintf("s := %s\nif len(s) > 0 {\ni := b %% len(s)\nj := i + c%%(len(s)-i+1)\n%s = s[i:j]\n}\nreturn hStr(%s)", S(kStr, "b"), S(kStr, "a"), S(kStr, "a")))
	g.add("string <-> bytes", fmt.Sprintf("bs := []byte(%s)\nbs = append(bs, byte('a'+c%%26))\n%s = string(bs)\nreturn hStr(%s)", S(kStr, "b"), S(kStr, "a"), S(kStr, "a")))
	// []int
	si := func(i string) string { return S(kSliceInt, i) }
	g.add("make []int", fmt.Sprintf("%s = make([]int, b%%9, b%%9+c%%5)\nfor i := range %s {\n%s[i] = i + c\n}\nreturn hSI(%s)", si("a"), si("a"), si("a"), si("a")))
	g.add("append int", fmt.Sprintf("%s = append(%s, b*3+c)\nreturn hSI(%s) + i64(len(%s))", si("a"), si("a"), si("a"), si("a")))
	g.add("append to other slot (aliasing within capacity)", fmt.Sprintf("%s = append(%s, c)\nreturn hSI(%s) ^ hSI(%s)", si("a"), si("b"), si("a"), si("b")))
	g.add("reslice []int", fmt.Sprintf("s := %s\nif len(s) > 0 {\ni := b %% len(s)\nj := i + c%%(len(s)-i+1)\n%s = s[i:j]\n}\nreturn hSI(%s)", si("b"), si("a"), si("a")))
	g.add("append slice...", fmt.Sprintf("if len(%s) < 64 {\n%s = append(%s, %s...)\n}\nreturn hSI(%s)", si("a"), si("a"), si("a"), si("b"), si("a")))
	g.add("copy()", fmt.Sprintf("n := copy(%s, %s)\nreturn hSI(%s) + i64(n)", si("a"), si("b"), si("a")))
	g.add("elem store []int", fmt.Sprintf("if len(%s) > 0 {\n%s[b%%len(%s)] = c\n}\nreturn hSI(%s)", si("a"), si("a"), si("a"), si("a")))
	if g.has(kSliceStr) {
		ss := func(i string) string { return S(kSliceStr, i) }
		g.add("append string", fmt.Sprintf("if len(%s) < 40 {\n%s = append(%s, %s)\n}\nreturn hSS(%s)", ss("a"), ss("a"), ss("a"), S(kStr, "b"), ss("a")))
		g.add("elem store []string", fmt.Sprintf("if len(%s) > 0 {\n%s[b%%len(%s)] = %s\n}\nreturn hSS(%s)", ss("a"), ss("a"), ss("a"), S(kStr, "c"), ss("a")))
		g.add("elem load []string", fmt.Sprintf("if len(%s) > 0 {\n%s = %s[b%%len(%s)]\n}\nreturn hStr(%s)", ss("a"), S(kStr, "c"), ss("a"), ss("a"), S(kStr, "c")))
		g.add("reslice []string", fmt.Sprintf("s := %s\nif len(s) > 0 {\ni := b %% len(s)\n%s = s[i:]\n}\nreturn hSS(%s)", ss("b"), ss("a"), ss("a")))
		g.add("copy() []string", fmt.Sprintf("n := copy(%s, %s)\nreturn hSS(%s) + i64(n)", ss("a"), ss("b"), ss("a")))
		g.add("insert into []string with copy()", fmt.Sprintf("t := %s\nif len(t) > 0 && len(t) < 30 {\nt = append(t, \"\")\ni := b %% len(t)\ncopy(t[i+1:], t[i:])\nt[i] = %s\n%s = t\n}\nreturn hSS(%s)", ss("a"), S(kStr, "c"), ss("a"), ss("a")))
		g.add("delete from []string with copy()", fmt.Sprintf("t := %s\nif len(t) > 1 {\ni := b %% len(t)\ncopy(t[i:], t[i+1:])\nt[len(t)-1] = \"\"\n%s = t[:len(t)-1]\n}\nreturn hSS(%s)", ss("a"), ss("a"), ss("a")))
		g.add("make []string", fmt.Sprintf("%s = make([]string, b%%5)\nfor i := range %s {\n%s[i] = itoa(i+c)\n}\nreturn hSS(%s)", ss("a"), ss("a"), ss("a"), ss("a")))
	}
	if g.has(kMapIntStr) {
		m := func(i string) string { return S(kMapIntStr, i) }
		g.add("map[int]string insert", fmt.Sprintf("%s[b%%16] = %s\nreturn hMIS(%s)", m("a"), S(kStr, "c"), m("a")))
		g.add("map[int]string delete", fmt.Sprintf("delete(%s, b%%16)\nreturn hMIS(%s)", m("a"), m("a")))
		g.add("map[int]string lookup", fmt.Sprintf("v, ok := %s[b%%16]\nif ok {\n%s = v\nreturn hStr(v)\n}\nreturn -1", m("a"), S(kStr, "c")))
	}
	if g.has(kMapStrInt) {
		m := func(i string) string { return S(kMapStrInt, i) }
		g.add("map[string]int insert", fmt.Sprintf("%s[%s] = b\nreturn hMSI(%s)", m("a"), S(kStr, "c"), m("a")))
		g.add("map[string]int insert fresh key", fmt.Sprintf("%s[\"k\"+itoa(b%%12)] = c\nreturn hMSI(%s)", m("a"), m("a")))
		g.add("map[string]int delete", fmt.Sprintf("delete(%s, \"k\"+itoa(b%%12))\nreturn hMSI(%s)", m("a"), m("a")))
		g.add("map[string]int lookup", fmt.Sprintf("v, ok := %s[%s]\nif ok {\nreturn i64(v)\n}\nreturn -1", m("a"), S(kStr, "c")))
	}
	if g.has(kNode) {
		n := func(i string) string { return S(kNode, i) }
		g.add("new Node", fmt.Sprintf("%s = &Node{val: b, rank: 2 * (c %% 4), name: %s, items: %s}\nreturn hN(%s)", n("a"), S(kStr, "b"), si("c"), n("a")))
		g.add("new Node with tags map", fmt.Sprintf("p := &Node{val: c, rank: 1 + 2*(b%%4)}\np.tags = make(map[int]string)\np.tags[b] = %s\n%s = p\nreturn hN(p)", S(kStr, "c"), n("a")))
		g.add("link Node.next (rank strictly decreasing: acyclic)", fmt.Sprintf("p := %s\nq := %s\nif p != nil && (q == nil || q.rank < p.rank) {\np.next = q\n}\nreturn hN(p)", n("a"), n("b")))
		g.add("Node field store", fmt.Sprintf("p := %s\nif p != nil {\np.name = %s\np.items = %s\np.val = c\n}\nreturn hN(p)", n("a"), S(kStr, "b"), si("c")))
		g.add("Node field load", fmt.Sprintf("p := %s\nif p != nil {\n%s = p.name\n%s = p.items\n}\nreturn hStr(%s) + hSI(%s)", n("a"), S(kStr, "b"), si("c"), S(kStr, "b"), si("c")))
		g.add("Node.next walk into slot", fmt.Sprintf("p := %s\nif p != nil {\n%s = p.next\n}\nreturn hN(%s)", n("a"), n("b"), n("b")))
		g.add("Node tags insert", fmt.Sprintf("p := %s\nif p != nil && p.rank%%2 == 1 {\np.tags[b%%8] = %s\nreturn hMIS(p.tags)\n}\nreturn -1", n("a"), S(kStr, "c")))
		g.add("Node value copy", fmt.Sprintf("p := %s\nif p != nil {\nv := *p\nv.val = v.val + 1\nq := &v\nif q.next != nil && q.next.rank >= q.rank {\nq.next = nil\n}\n%s = q\n}\nreturn hN(%s)", n("a"), n("b"), n("b")))
	}
	if g.has(kSliceNode) {
		s := func(i string) string { return S(kSliceNode, i) }
		g.add("append *Node", fmt.Sprintf("if len(%s) < 24 {\n%s = append(%s, %s)\n}\nreturn hSN(%s)", s("a"), s("a"), s("a"), S(kNode, "b"), s("a")))
		g.add("elem load []*Node", fmt.Sprintf("if len(%s) > 0 {\n%s = %s[b%%len(%s)]\n}\nreturn hN(%s)", s("a"), S(kNode, "c"), s("a"), s("a"), S(kNode, "c")))
		g.add("elem store []*Node", fmt.Sprintf("if len(%s) > 0 {\n%s[b%%len(%s)] = %s\n}\nreturn hSN(%s)", s("a"), s("a"), s("a"), S(kNode, "c"), s("a")))
		g.add("reslice []*Node", fmt.Sprintf("t := %s\nif len(t) > 0 {\ni := b %% len(t)\n%s = t[i:]\n}\nreturn hSN(%s)", s("b"), s("a"), s("a")))
		g.add("copy() []*Node into fresh slice", fmt.Sprintf("t := make([]*Node, len(%s))\nn := copy(t, %s)\n%s = t\nreturn hSN(t) + i64(n)", s("b"), s("b"), s("a")))
		g.add("remove first []*Node", fmt.Sprintf("t := %s\nif len(t) > 1 {\ncopy(t, t[1:])\nt[len(t)-1] = nil\n%s = t[:len(t)-1]\n}\nreturn hSN(%s)", s("a"), s("a"), s("a")))
	}
	if g.has(kMapIntNode) {
		m := func(i string) string { return S(kMapIntNode, i) }
		g.add("map[int]*Node insert", fmt.Sprintf("%s[b%%10] = %s\nreturn hMIN(%s)", m("a"), S(kNode, "c"), m("a")))
		g.add("map[int]*Node delete", fmt.Sprintf("delete(%s, b%%10)\nreturn hMIN(%s)", m("a"), m("a")))
		g.add("map[int]*Node lookup", fmt.Sprintf("v, ok := %s[b%%10]\nif ok {\n%s = v\n}\nreturn hN(%s)", m("a"), S(kNode, "c"), S(kNode, "c")))
	}
	if g.has(kSliceSliceInt) {
		s := func(i string) string { return S(kSliceSliceInt, i) }
		g.add("append []int to [][]int", fmt.Sprintf("if len(%s) < 16 {\n%s = append(%s, %s)\n}\nreturn hSSI(%s)", s("a"), s("a"), s("a"), si("b"), s("a")))
		g.add("elem load [][]int", fmt.Sprintf("if len(%s) > 0 {\n%s = %s[b%%len(%s)]\n}\nreturn hSI(%s)", s("a"), si("c"), s("a"), s("a"), si("c")))
		g.add("copy() [][]int", fmt.Sprintf("t := make([][]int, len(%s))\ncopy(t, %s)\n%s = t\nreturn hSSI(t)", s("b"), s("b"), s("a")))
		g.add("inner append [][]int", fmt.Sprintf("if len(%s) > 0 {\ni := b %% len(%s)\n%s[i] = append(%s[i], c)\n}\nreturn hSSI(%s)", s("a"), s("a"), s("a"), s("a"), s("a")))
	}
	if g.has(kMapStrSliceInt) {
		m := func(i string) string { return S(kMapStrSliceInt, i) }
		g.add("map[string][]int insert", fmt.Sprintf("%s[\"k\"+itoa(b%%6)] = %s\nreturn hMSS(%s)", m("a"), si("c"), m("a")))
		g.add("map[string][]int append in place", fmt.Sprintf("k := \"k\" + itoa(b%%6)\n%s[k] = append(%s[k], c)\nreturn hMSS(%s)", m("a"), m("a"), m("a")))
		g.add("map[string][]int delete", fmt.Sprintf("delete(%s, \"k\"+itoa(b%%6))\nreturn hMSS(%s)", m("a"), m("a")))
	}
	if g.has(kFuncInt) {
		f := func(i string) string { return S(kFuncInt, i) }
		g.add("closure capturing int and []int", fmt.Sprintf("x := b\ns := %s\n%s = func() => int {\nx++\nreturn x + len(s)\n}\nreturn 1", si("c"), f("a")))
		g.add("closure capturing string", fmt.Sprintf("s := %s\n%s = func() => int {\nreturn len(s)\n}\nreturn 1", S(kStr, "b"), f("a")))
		g.add("call func() => int", fmt.Sprintf("if %s != nil {\nreturn i64(%s())\n}\nreturn -1", f("a"), f("a")))
		if g.has(kNode) {
			g.add("closure capturing *Node", fmt.Sprintf("p := %s\n%s = func() => int {\nif p == nil {\nreturn -1\n}\np.val++\nreturn p.val\n}\nreturn 1", S(kNode, "b"), f("a")))
		}
		g.add("closure capturing closure (lower level only: int-returning captured by value call)", fmt.Sprintf("v := 0\nif %s != nil {\nv = %s()\n}\n%s = func() => int {\nv += 2\nreturn v\n}\nreturn i64(v)", f("b"), f("b"), f("a")))
	}
	if g.has(kFuncStr) {
		f := func(i string) string { return S(kFuncStr, i) }
		g.add("closure returning string", fmt.Sprintf("s := %s\nn := c\n%s = func() => string {\nn++\nreturn s + itoa(n)\n}\nreturn 1", S(kStr, "b"), f("a")))
		g.add("call func() => string into slot", fmt.Sprintf("if %s != nil {\n%s = %s()\n}\nreturn hStr(%s)", f("a"), S(kStr, "b"), f("a"), S(kStr, "b")))
	}
	if g.has(kFuncNode) {
		f := func(i string) string { return S(kFuncNode, i) }
		g.add("closure returning captured *Node", fmt.Sprintf("p := %s\n%s = func() => *Node {\nreturn p\n}\nreturn 1", S(kNode, "b"), f("a")))
		g.add("closure allocating *Node", fmt.Sprintf("s := %s\nk := c\n%s = func() => *Node {\nk++\nreturn &Node{val: k, name: s}\n}\nreturn 1", S(kStr, "b"), f("a")))
		g.add("call func() => *Node into slot", fmt.Sprintf("if %s != nil {\n%s = %s()\n}\nreturn hN(%s)", f("a"), S(kNode, "b"), f("a"), S(kNode, "b")))
	}
	if g.has(kIface) {
		x := func(i string) string { return S(kIface, i) }
		g.add("box Rect pointer", fmt.Sprintf("%s = &Rect{w: b, h: c, tag: %s}\nreturn hI(%s)", x("a"), S(kStr, "b"), x("a")))
		poly := "&Poly{pts: " + si("b") + "}"
		if g.has(kNode) {
			poly = "&Poly{pts: " + si("b") + ", own: " + S(kNode, "c") + "}"
		}
		g.add("box Poly pointer", fmt.Sprintf("%s = %s\nreturn hI(%s)", x("a"), poly, x("a")))
		if g.has(kStructVal) {
			g.add("box Wrap with Pair value", fmt.Sprintf("%s = &Wrap{p: %s}\nreturn hI(%s)", x("a"), S(kStructVal, "b"), x("a")))
		}
		g.add("method call", fmt.Sprintf("if %s != nil {\n%s = %s.Label()\nreturn i64(%s.Area())\n}\nreturn -1", x("a"), S(kStr, "b"), x("a"), x("a")))
		g.add("type assertion", fmt.Sprintf("if r, ok := %s.(*Rect); ok {\n%s = r.tag\nreturn i64(r.w)\n}\nif p, ok := %s.(*Poly); ok {\n%s = p.pts\nreturn hSI(p.pts)\n}\nreturn -1", x("a"), S(kStr, "b"), x("a"), si("c")))
		g.add("type switch", fmt.Sprintf("switch v := %s.(type) {\ncase *Rect:\nreturn i64(v.h)\ncase *Poly:\nreturn hSI(v.pts)\ncase *Wrap:\nreturn hV(v.p)\n}\nreturn -1", x("a")))
	}
	if g.has(kSliceIface) {
		s := func(i string) string { return S(kSliceIface, i) }
		g.add("append Shape", fmt.Sprintf("if len(%s) < 16 {\n%s = append(%s, %s)\n}\nreturn hSIf(%s)", s("a"), s("a"), s("a"), S(kIface, "b"), s("a")))
		g.add("elem load []Shape", fmt.Sprintf("if len(%s) > 0 {\n%s = %s[b%%len(%s)]\n}\nreturn hI(%s)", s("a"), S(kIface, "c"), s("a"), s("a"), S(kIface, "c")))
		g.add("reslice []Shape", fmt.Sprintf("t := %s\nif len(t) > 0 {\n%s = t[:b%%len(t)]\n}\nreturn hSIf(%s)", s("b"), s("a"), s("a")))
	}
	if g.has(kStructVal) {
		v := func(i string) string { return S(kStructVal, i) }
		n := "nil"
		if g.has(kNode) {
			n = S(kNode, "c")
		}
		g.add("Pair literal", fmt.Sprintf("%s = Pair{a: b, s: %s, v: %s, n: %s}\nreturn hV(%s)", v("a"), S(kStr, "b"), si("c"), n, v("a")))
		g.add("Pair field store", fmt.Sprintf("%s.s = %s\n%s.v = %s\nreturn hV(%s)", v("a"), S(kStr, "b"), v("a"), si("c"), v("a")))
		g.add("Pair field load", fmt.Sprintf("%s = %s.s\n%s = %s.v\nreturn hStr(%s) + hSI(%s)", S(kStr, "b"), v("a"), si("c"), v("a"), S(kStr, "b"), si("c")))
		g.add("Pair array of values", fmt.Sprintf("arr: [3]Pair\narr[0] = %s\narr[1] = %s\narr[2] = arr[0]\narr[0].a = c\nreturn hV(arr[0]) + hV(arr[1]) + hV(arr[2])", v("a"), v("b")))
		g.add("Pair pointer round trip", fmt.Sprintf("p := &%s\np.a = p.a + 1\nq := *p\n%s = q\nreturn hV(q)", v("a"), v("b")))
	}
}

// formOps adds operations whose point is the syntactic form (which SSA
// instruction and which retain/release emission path it reaches), not the
// data structure: field selection on call results and map elements, indexing
// array values, phi merges, tuple extraction, named results with defer, early
// returns, captured variables, dropped results.
func (g *gen) formOps() {
	S := g.slot
	si := func(i string) string { return S(kSliceInt, i) }
	str := func(i string) string { return S(kStr, i) }
	nd := "nil"
	if g.has(kNode) {
		nd = S(kNode, "c")
	}
	g.add("field of call result (string)", fmt.Sprintf("%s = mkPair(b, %s, %s, %s).s\nreturn hStr(%s)", str("a"), str("b"), si("c"), nd, str("a")))
	g.add("field of call result ([]int)", fmt.Sprintf("%s = mkPair(b, %s, %s, %s).v\nreturn hSI(%s)", si("a"), str("b"), si("c"), nd, si("a")))
	g.add("field of call result (int), value dropped", fmt.Sprintf("return i64(mkPair(b, %s, %s, %s).a)", str("b"), si("c"), nd))
	g.add("index of array-valued call result", fmt.Sprintf("%s = mkArr(%s, %s)[c%%3]\nreturn hStr(%s)", str("a"), str("b"), str("c"), str("a")))
	g.add("array value local, element copy", fmt.Sprintf("arr := mkArr(%s, %s)\nbrr := arr\nbrr[c%%3] = \"q\"\n%s = arr[b%%3] + brr[c%%3]\nreturn hStr(%s)", str("b"), str("c"), str("a"), str("a")))
	g.add("phi merge of strings", fmt.Sprintf("x := %s\nif c%%2 == 0 {\nx = %s\n} else if c%%3 == 0 {\nx = x + \"p\"\n}\n%s = x\nreturn hStr(x)", str("a"), str("b"), str("c")))
	g.add("loop-carried string", fmt.Sprintf("x := %s\nfor i := 0; i < c%%4; i++ {\nif len(x) < 100 {\nx = x + itoa(i)\n}\n}\n%s = x\nreturn hStr(x)", str("b"), str("a")))
	g.add("loop-carried slice", fmt.Sprintf("x := %s\nfor i := 0; i < c%%4; i++ {\nif len(x) < 50 {\nx = append(x, i)\n} else {\nx = x[1:]\n}\n}\n%s = x\nreturn hSI(x)", si("b"), si("a")))
	g.add("parallel assignment swap", fmt.Sprintf("%s, %s = %s, %s\nreturn hStr(%s)", str("a"), str("b"), str("b"), str("a"), str("a")))
	g.add("tuple extraction", fmt.Sprintf("x, y := twoStr(%s, c)\n%s = y\nreturn hStr(x)", str("b"), str("a")))
	g.add("tuple result half dropped", fmt.Sprintf("x, _ := twoStr(%s, c)\n%s = x\nreturn hStr(x)", str("b"), str("a")))
	g.add("result dropped entirely", fmt.Sprintf("twoStr(%s, c)\nmkPair(b, %s, %s, %s)\nreturn 3", str("b"), str("a"), si("c"), nd))
	g.add("named result modified by defer", fmt.Sprintf("%s = namedResult(%s, c)\nreturn hStr(%s)", str("a"), str("b"), str("a")))
	g.add("early exits with live locals", fmt.Sprintf("return i64(earlyExit(%s, %s, c))", si("a"), str("b")))
	g.add("captured variable modified by closure", fmt.Sprintf("x := %s\nf := func() {\nif len(x) < 100 {\nx = x + \"c\"\n}\n}\nf()\nif c%%2 == 0 {\nf()\n}\n%s = x\nreturn hStr(x)", str("b"), str("a")))
	g.add("captured slice modified by closure", fmt.Sprintf("x := %s\nf := func(v: int) {\nif len(x) < 50 {\nx = append(x, v)\n}\n}\nf(b)\nf(c)\n%s = x\nreturn hSI(x)", si("b"), si("a")))
	g.add("map key from temporary string", fmt.Sprintf("m := make(map[string]int)\nm[%s+itoa(c%%3)] = b\nm[\"t\"+itoa(b%%3)] += c\nv := m[%s+\"0\"]\nreturn i64(v) + i64(len(m))", str("b"), str("b")))
	g.add("string comparison and switch", fmt.Sprintf("x := %s\nswitch {\ncase x == %s:\nreturn 1\ncase x < %s:\nreturn 2\ncase x == \"n\"+itoa(c):\nreturn 3\n}\nreturn 4", str("a"), str("b"), str("b")))
	g.add("range over string", fmt.Sprintf("h: i64 = 5\nfor i, r := range %s {\nh = mix(h, i64(r)+i64(i))\n}\nreturn h", str("a")))
	g.add("range over slice with value copy", fmt.Sprintf("t: []int\nfor _, v := range %s {\nif v%%2 == c%%2 {\nt = append(t, v)\n}\n}\n%s = t\nreturn hSI(t)", si("b"), si("a")))
	g.add("pointer to slot element", fmt.Sprintf("p := &%s\n*p = append(*p, c)\nq := &%s\n*q = *q + \"&\"\nif len(*q) > 150 {\n*q = \"\"\n}\nif len(*p) > 60 {\n*p = nil\n}\nreturn hSI(*p) + hStr(*q)", si("a"), str("b")))
	if g.has(kNode) {
		n := func(i string) string { return S(kNode, i) }
		g.add("nested field through pointer", fmt.Sprintf("p := %s\nif p != nil && p.next != nil {\n%s = p.next.name\n%s = p.next.items\n}\nreturn hStr(%s)", n("a"), str("b"), si("c"), str("b")))
		g.add("pointer to field", fmt.Sprintf("p := %s\nif p != nil {\nq := &p.items\n*q = append(*q, c)\nif len(*q) > 40 {\n*q = nil\n}\nr := &p.name\n*r = *r + \"f\"\nif len(*r) > 100 {\n*r = \"\"\n}\n}\nreturn hN(p)", n("a")))
	}
	if g.has(kNode) {
		n := func(i string) string { return S(kNode, i) }
		g.add("field address reassigned in a loop (phi of pointers)", fmt.Sprintf("p := %s\nif p == nil {\nreturn -1\n}\nq := &p.val\nfor i := 0; i < 1+c%%3; i++ {\nif i%%2 == 0 {\nq = &p.rank\n} else {\nq = &p.val\n}\n*q = *q + 0\n}\nreturn i64(*q)", n("a")))
		g.add("string field address through loop", fmt.Sprintf("p := %s\nif p == nil {\nreturn -1\n}\nq := &p.name\nr := &%s\nfor i := 0; i < 1+c%%3; i++ {\nt := q\nq = r\nr = t\n}\nx := *q\nreturn hStr(x) + hStr(*r)", n("a"), str("b")))
		g.add("node pointer advanced in for{} with break", fmt.Sprintf("p := %s\ncnt := 0\nfor {\nif p == nil || cnt > 5 {\nbreak\n}\nq := &p.items\nif len(*q) > 30 {\n*q = (*q)[:2]\n}\np = p.next\ncnt++\n}\nreturn i64(cnt)", n("a")))
		g.add("slice element address through loop", fmt.Sprintf("s := %s\nif len(s) == 0 {\nreturn -1\n}\nq := &s[0]\nfor i := range s {\nif s[i] > *q {\nq = &s[i]\n}\n}\n*q = *q + 1\nreturn i64(*q) + hSI(s)", si("a")))
	}
	if g.has(kStructVal) {
		v := func(i string) string { return S(kStructVal, i) }
		g.add("struct value through call and field of slot", fmt.Sprintf("%s = mkPair(b, %s.s, %s.v, %s.n)\nreturn hV(%s)", v("a"), v("b"), v("c"), v("b"), v("a")))
	}
	if g.has(kMapIntPair) {
		m := func(i string) string { return S(kMapIntPair, i) }
		v := func(i string) string { return S(kStructVal, i) }
		g.add("map[int]Pair insert", fmt.Sprintf("%s[b%%8] = %s\nreturn hMIP(%s)", m("a"), v("c"), m("a")))
		g.add("map[int]Pair insert literal", fmt.Sprintf("%s[b%%8] = Pair{a: c, s: %s, v: %s}\nreturn hMIP(%s)", m("a"), str("b"), si("c"), m("a")))
		g.add("field of map element (string)", fmt.Sprintf("%s = %s[b%%8].s\nreturn hStr(%s)", str("c"), m("a"), str("c")))
		g.add("field of map element ([]int)", fmt.Sprintf("%s = %s[b%%8].v\nreturn hSI(%s)", si("c"), m("a"), si("c")))
		g.add("map[int]Pair lookup comma-ok", fmt.Sprintf("p, ok := %s[b%%8]\nif ok {\n%s = p\nreturn hV(p)\n}\nreturn -1", m("a"), v("c")))
		g.add("map[int]Pair delete", fmt.Sprintf("delete(%s, b%%8)\nreturn hMIP(%s)", m("a"), m("a")))
	}
	if g.has(kSlicePair) {
		s := func(i string) string { return S(kSlicePair, i) }
		v := func(i string) string { return S(kStructVal, i) }
		g.add("append Pair", fmt.Sprintf("if len(%s) < 12 {\n%s = append(%s, %s)\n}\nreturn hSP(%s)", s("a"), s("a"), s("a"), v("b"), s("a")))
		g.add("[]Pair element field store", fmt.Sprintf("if len(%s) > 0 {\n%s[b%%len(%s)].s = %s\n%s[b%%len(%s)].v = %s\n}\nreturn hSP(%s)", s("a"), s("a"), s("a"), str("c"), s("a"), s("a"), si("c"), s("a")))
		g.add("[]Pair element load", fmt.Sprintf("if len(%s) > 0 {\n%s = %s[b%%len(%s)]\n}\nreturn hV(%s)", s("a"), v("c"), s("a"), s("a"), v("c")))
		g.add("[]Pair reslice and overwrite", fmt.Sprintf("t := %s\nif len(t) > 1 {\nt[0] = t[len(t)-1]\n%s = t[:len(t)-1]\n}\nreturn hSP(%s)", s("a"), s("a"), s("a")))
	}
	if g.has(kArrStr) {
		a := func(i string) string { return S(kArrStr, i) }
		g.add("array slot element store", fmt.Sprintf("%s[b%%3] = %s\nreturn hAS(%s)", a("a"), str("c"), a("a")))
		g.add("array slot element load", fmt.Sprintf("%s = %s[b%%3]\nreturn hStr(%s)", str("c"), a("a"), str("c")))
		g.add("array from call", fmt.Sprintf("%s = mkArr(%s, %s)\nreturn hAS(%s)", a("a"), str("b"), str("c"), a("a")))
		g.add("slice of array slot", fmt.Sprintf("t := %s[b%%3:]\nh: i64 = 1\nfor _, x := range t {\nh = mix(h, hStr(x))\n}\nreturn h", a("a")))
	}
	if g.has(kAny) {
		x := func(i string) string { return S(kAny, i) }
		g.add("box int", fmt.Sprintf("%s = b*3 + c\nreturn hA(%s)", x("a"), x("a")))
		g.add("box string", fmt.Sprintf("%s = %s\nreturn hA(%s)", x("a"), str("b"), x("a")))
		g.add("box []int", fmt.Sprintf("%s = %s\nreturn hA(%s)", x("a"), si("b"), x("a")))
		g.add("box f64", fmt.Sprintf("%s = f64(b) / 8\nreturn hA(%s)", x("a"), x("a")))
		if g.has(kNode) {
			g.add("box *Node", fmt.Sprintf("%s = %s\nreturn hA(%s)", x("a"), S(kNode, "b"), x("a")))
		}
		if g.has(kStructVal) {
			g.add("box Pair value", fmt.Sprintf("%s = %s\nreturn hA(%s)", x("a"), S(kStructVal, "b"), x("a")))
			g.add("unbox Pair value", fmt.Sprintf("if p, ok := %s.(Pair); ok {\n%s = p\nreturn hV(p)\n}\nreturn -1", x("a"), S(kStructVal, "b")))
		}
		g.add("unbox string", fmt.Sprintf("if s, ok := %s.(string); ok {\n%s = s\nreturn hStr(s)\n}\nreturn -1", x("a"), str("b")))
		g.add("unbox []int", fmt.Sprintf("if s, ok := %s.([]int); ok {\n%s = s\nreturn hSI(s)\n}\nreturn -1", x("a"), si("b")))
		g.add("interface equality", fmt.Sprintf("if %s == %s {\nreturn 1\n}\nreturn 0", x("a"), x("b")))
	}
	if g.has(kSliceAny) {
		s := func(i string) string { return S(kSliceAny, i) }
		g.add("append interface{}", fmt.Sprintf("if len(%s) < 16 {\n%s = append(%s, %s)\n}\nreturn hSA(%s)", s("a"), s("a"), s("a"), S(kAny, "b"), s("a")))
		g.add("append boxed literal values", fmt.Sprintf("if len(%s) < 16 {\n%s = append(%s, c, %s)\n}\nreturn hSA(%s)", s("a"), s("a"), s("a"), str("b"), s("a")))
		g.add("elem load []interface{}", fmt.Sprintf("if len(%s) > 0 {\n%s = %s[b%%len(%s)]\n}\nreturn hA(%s)", s("a"), S(kAny, "c"), s("a"), s("a"), S(kAny, "c")))
	}
}

// formOps2: a second batch of syntactic forms.
func (g *gen) formOps2() {
	S := g.slot
	si := func(i string) string { return S(kSliceInt, i) }
	str := func(i string) string { return S(kStr, i) }
	g.add("variadic call with spread and with list", fmt.Sprintf("%s = joinAll(\"-\", %s, %s, \"lit\")\nn := sumAll(%s...)\nreturn hStr(%s) + i64(n)", str("a"), str("b"), str("c"), si("b"), str("a")))
	g.add("recursion passing refs", fmt.Sprintf("%s = recur(%s, %s, c%%7)\nif len(%s) > 120 {\n%s = %s[:40]\n}\nreturn hStr(%s)", str("a"), str("b"), si("c"), str("a"), str("a"), str("a"), str("a")))
	g.add("closure returning closure", fmt.Sprintf("f := mkAdder(%s)\nx := f(\"p\")\ny := f(%s)\nif len(y) > 150 {\ny = \"y\"\n}\n%s = y\nreturn hStr(x) + hStr(y)", str("b"), str("c"), str("a")))
	g.add("closures created in a loop", fmt.Sprintf("fs: []func() => int\nfor i := 0; i < 3; i++ {\nk := i + c\ns := %s\nfs = append(fs, func() => int {\nk++\nreturn k + len(s)\n})\n}\nt := 0\nfor _, f := range fs {\nt += f()\n}\nreturn i64(t)", str("b")))
	g.add("delete-from-slice idiom (append of overlapping parts)", fmt.Sprintf("t := %s\nif len(t) > 1 {\ni := b %% len(t)\nt = append(t[:i], t[i+1:]...)\n%s = t\n}\nreturn hSI(t)", si("a"), si("a")))
	g.add("self append", fmt.Sprintf("t := %s\nif len(t) > 0 && len(t) < 20 {\nt = append(t, t...)\n%s = t\n}\nreturn hSI(t)", si("a"), si("a")))
	g.add("labeled break and continue with live refs", fmt.Sprintf("acc := \"\"\nouter:\nfor i := 0; i < 3; i++ {\nx := %s + itoa(i)\nfor j := 0; j < 3; j++ {\ny := x + itoa(j)\nif (i+j+c)%%4 == 0 {\ncontinue outer\n}\nif (i*j+b)%%7 == 6 {\nbreak outer\n}\nif len(acc) < 60 {\nacc += y\n}\n}\n}\n%s = acc\nreturn hStr(acc)", str("b"), str("a")))
	g.add("switch paths holding refs", fmt.Sprintf("x := %s\nswitch c %% 4 {\ncase 0:\nx = x + \"0\"\ncase 1, 3:\nx = x + \"1\"\ncase 2:\ny := x\nx = y + y\ndefault:\nx = \"\"\n}\nif len(x) > 100 {\nx = x[:10]\n}\n%s = x\nreturn hStr(x)", str("b"), str("a")))
	g.add("deferred interface-method calls whose results are dropped", fmt.Sprintf("cl: Closer = &Res{name: %s, data: %s}\nn := deferIface(cl, b)\nx := cl.Close()\nreturn i64(n) + hN(x) + hStr(cl.Text(c0(cl)))", str("b"), si("c")))
	g.add("deferred concrete-method and function calls whose results are dropped", fmt.Sprintf("r := &Res{name: %s, data: %s}\nreturn i64(deferConcrete(r, b))", str("b"), si("c")))
	g.add("interface method results dropped or used directly", fmt.Sprintf("cl: Closer = &Res{name: %s, data: %s}\ncl.Close()\ncl.Rows()\n%s = cl.Text(b)\n%s = cl.Rows()\nreturn hStr(%s) + hSI(%s)", str("b"), si("c"), str("a"), si("a"), str("a"), si("a")))
	g.add("defer in a loop", fmt.Sprintf("r := %s\nfunc() {\nfor i := 0; i < 3; i++ {\nk := itoa(i + c)\ndefer func() {\nif len(r) < 80 {\nr = r + k\n}\n}()\n}\n}()\n%s = r\nreturn hStr(r)", str("b"), str("a")))
	g.add("new(T) and store through pointer", fmt.Sprintf("p := new(Pair)\n*p = Pair{a: b, s: %s, v: %s}\n*p = Pair{a: c, s: p.s + \"n\", v: p.v}\nq := new(string)\n*q = p.s\n%s = *q\nreturn hV(*p)", str("b"), si("c"), str("a")))
	g.add("map of maps", fmt.Sprintf("mm := make(map[string]map[int]string)\nfor i := 0; i < 3; i++ {\nk := \"m\" + itoa((b+i)%%2)\nif _, ok := mm[k]; !ok {\nmm[k] = make(map[int]string)\n}\nmm[k][i] = %s\n}\nh: i64 = 0\nfor k, m := range mm {\nh += mix(hStr(k), hMISx(m))\n}\ndelete(mm, \"m0\")\nreturn h + i64(len(mm))", str("c")))
	g.add("runes and bytes", fmt.Sprintf("s := %s\nrs := []rune(s)\nif len(rs) > 1 {\nrs[0], rs[len(rs)-1] = rs[len(rs)-1], rs[0]\n}\nt := string(rs)\nif len(t) > 0 {\nt = t + string(rs[0])\n}\nif len(t) > 100 {\nt = t[:8]\n}\n%s = t\nreturn hStr(t)", str("b"), str("a")))
	g.add("array of structs ranged by value", fmt.Sprintf("arr: [3]Pair\nfor i := range arr {\narr[i] = Pair{a: i + c, s: %s + itoa(i), v: %s}\n}\nh: i64 = 3\nfor _, p := range arr {\np.s = p.s + \"x\"\nh = mix(h, hV(p))\n}\nq := &arr[b%%3]\nq.s = \"ptr\"\nreturn h + hV(arr[b%%3])", str("b"), si("c")))
	g.add("Holder with array, closure, any, nested struct fields", fmt.Sprintf("h := &Holder{}\nh.arr[0] = %s\nh.arr[1] = h.arr[0] + \"1\"\nk := c\nh.fn = func() => int {\nk++\nreturn k\n}\nh.any = %s\nh.in = Pair{a: b, s: %s, v: %s}\nh.rows = append(h.rows, %s, %s)\nx := hH(h)\nh.any = h.in.s\nh.rows[0] = nil\n%s = h.arr[1]\nreturn x + hH(h)", str("b"), si("c"), str("c"), si("b"), si("b"), si("c"), str("a")))
	g.add("swap elements of [][]int", fmt.Sprintf("rows := [][]int{%s, %s, nil}\nrows[0], rows[2] = rows[2], rows[0]\nrows[1], rows[2] = rows[2], rows[1]\n%s = rows[2]\nreturn hSSI(rows)", si("b"), si("c"), si("a")))
	if g.has(kFuncInt) {
		g.add("method value bound to pointer", fmt.Sprintf("r := &Rect{w: b, h: c, tag: %s}\n%s = r.Area\nr.w = r.w + 1\nreturn i64(%s())", str("b"), S(kFuncInt, "a"), S(kFuncInt, "a")))
	}
	if g.has(kNode) {
		n := func(i string) string { return S(kNode, i) }
		g.add("struct copy through pointers", fmt.Sprintf("p, q := %s, %s\nif p != nil && q != nil && p != q {\nnx := p.next\n*p = *q\nif nx != nil && nx.rank < p.rank {\np.next = nx\n} else if p.next != nil && p.next.rank >= p.rank {\np.next = nil\n}\n}\nreturn hN(p)", n("a"), n("b")))
	}
}

// formOps3: embedding, promoted methods, named slice types, multi-result
// interface methods, function-typed fields, copy-modify-store of map values.
func (g *gen) formOps3() {
	S := g.slot
	si := func(i string) string { return S(kSliceInt, i) }
	str := func(i string) string { return S(kStr, i) }
	g.add("embedded struct, promoted method and field", fmt.Sprintf("d := &Derived{extra: %s}\nd.note = %s\nd.id = b\nd.Push(c)\nd.hist = append(d.hist, %s...)\nif len(d.hist) > 40 {\nd.hist = d.hist[:4]\n}\n%s = d.Describe() + d.extra\n%s = d.hist\nif len(%s) > 120 {\n%s = \"\"\n}\nreturn hStr(%s) + hSI(%s)", str("b"), str("c"), si("b"), str("a"), si("a"), str("a"), str("a"), str("a"), si("a")))
	g.add("embedded struct boxed as interface", fmt.Sprintf("d := &Derived{extra: \"x\"}\nd.note = %s\nx: Describer = d\ny: Describer = &d.Base\nr := x.Describe() + y.Describe()\nif len(r) > 150 {\nr = r[:20]\n}\n%s = r\nreturn hStr(r)", str("b"), str("a")))
	g.add("function-typed struct field", fmt.Sprintf("pre := %s\nd := Derived{cb: func(s: string) => string {\nreturn pre + s\n}}\nr := d.cb(\"k\")\ne := d\nr = e.cb(r)\nif len(r) > 150 {\nr = r[:20]\n}\n%s = r\nreturn hStr(r)", str("b"), str("a")))
	g.add("three results through an interface", fmt.Sprintf("bs := &Base{note: %s, hist: %s}\nm: Multi = bs\nx, y, z := m.Split(c)\n_, y2, _ := m.Split(b)\nif len(x) > 150 {\nx = x[:20]\n}\nif len(y) > 40 {\ny = y[:4]\n}\n%s = x\n%s = y\nreturn hStr(x) + hSI(y) + hSI(y2) + hN(z)", str("b"), si("c"), str("a"), si("a")))
	g.add("named slice type with method", fmt.Sprintf("v := Strs{%s, %s}\nv = append(v, \"t\")\nw := v[1:]\nr := v.Join() + w.Join()\nif len(r) > 150 {\nr = r[:20]\n}\n%s = r\nreturn hStr(r)", str("b"), str("c"), str("a")))
	g.add("interface-to-interface assertions that fail", fmt.Sprintf("x: interface{} = &Res{name: %s, data: %s}\nn := 0\nif _, ok := x.(Shape); ok {\nn += 1\n}\nif _, ok := x.(Describer); ok {\nn += 2\n}\nif cl, ok := x.(Closer); ok {\nn += 4 + len(cl.Rows())\n}\nswitch t := x.(type) {\ncase Shape:\nn += t.Area()\ncase Multi:\nn += 100\ncase Closer:\nn += 1000\n}\ny: interface{} = %s\nif _, ok := y.(Shape); ok {\nn += 7\n}\nreturn i64(n)", str("b"), si("c"), str("c")))
	g.add("struct value with two reference fields boxed", fmt.Sprintf("v := SS{x: %s, y: %s, z: %s}\nbx: interface{} = v\nby: interface{} = SS{x: v.y, y: v.x}\nh: i64 = 0\nif w, ok := bx.(SS); ok {\nh = hSSv(w)\n}\nif w2, ok := by.(SS); ok {\nh += hSSv(w2)\n}\nif bx == by {\nh += 1\n}\nbx = nil\nby = nil\n%s = v.x\nreturn h + hStr(v.y)", str("b"), str("c"), si("c"), str("a")))
	g.add("map with two-reference-field struct values", fmt.Sprintf("m := make(map[int]SS)\nv := SS{x: %s, y: %s + \"y\", z: %s}\nfor i := 0; i < 1+c%%4; i++ {\nm[i] = v\ndelete(m, i)\n}\nm[b%%3] = v\nw := m[b%%3]\n%s = v.x\n%s = w.y\nreturn hSSv(w) + i64(len(m))", str("b"), str("c"), si("b"), str("a"), str("c")))
	g.add("map keyed by a struct of two strings", fmt.Sprintf("m := make(map[K2]int)\nk1 := K2{p: %s, q: %s}\nk2 := K2{p: %s + \"1\", q: %s}\nm[k1] = b\nm[k2] = c\nm[k1] += 1\ndelete(m, k2)\nv, ok := m[K2{p: %s, q: %s}]\nif !ok {\nreturn -1\n}\n%s = k1.p\nreturn i64(v) + i64(len(m))", str("b"), str("c"), str("b"), str("c"), str("b"), str("c"), str("a")))
	g.add("value selected among call arguments", fmt.Sprintf("r := pick3(c, %s, %s+\"q\", itoa(b))\n%s = r\nreturn hStr(r)", str("b"), str("c"), str("a")))
	if g.has(kSliceStr) {
		ss := func(i string) string { return S(kSliceStr, i) }
		g.add("range over []string with early break and continue", fmt.Sprintf("acc := \"\"\nfor i, x := range %s {\nif i%%2 == c%%2 {\ncontinue\n}\nif len(acc) > 40 || i > b%%5 {\nbreak\n}\nacc += x\n}\n%s = acc\nreturn hStr(acc)", ss("a"), str("b")))
	}
	if g.has(kMapIntStr) {
		m := func(i string) string { return S(kMapIntStr, i) }
		g.add("range over map with early break, result depends only on counts", fmt.Sprintf("n := 0\ntot := 0\nfor k, v := range %s {\n_ = k\nn++\ntot += len(v)\nif n >= 1+b%%3 {\nbreak\n}\n}\nfull := 0\nfor k2, v := range %s {\n_ = k2\nfull += len(v)\n}\nif n > len(%s) {\nreturn -1\n}\nreturn i64(n)*1000 + i64(full)", m("a"), m("a"), m("a")))
	}
	g.add("range over string with early return from helper", fmt.Sprintf("r := firstUpper(%s, c)\n%s = r\nreturn hStr(r)", str("b"), str("a")))
	if g.has(kMapIntPair) {
		m := func(i string) string { return S(kMapIntPair, i) }
		g.add("copy-modify-store of a map value", fmt.Sprintf("p, ok := %s[b%%8]\nif ok {\np.v = append(p.v, c)\nif len(p.v) > 30 {\np.v = nil\n}\np.s = p.s + \"m\"\nif len(p.s) > 60 {\np.s = \"\"\n}\n%s[b%%8] = p\n}\nreturn hMIP(%s)", m("a"), m("a"), m("a")))
	}
	if g.has(kMapIntStr) {
		m := func(i string) string { return S(kMapIntStr, i) }
		g.add("closures stored in a map", fmt.Sprintf("fm := make(map[int]func() => string)\nfor i := 0; i < 3; i++ {\nk := i\nv := %s[(b+i)%%16]\nfm[k] = func() => string {\nreturn v + itoa(k)\n}\n}\nr := \"\"\nfor i := 0; i < 3; i++ {\nr += fm[i]()\n}\ndelete(fm, 1)\nif len(r) > 150 {\nr = r[:20]\n}\n%s = r\nreturn hStr(r) + i64(len(fm))", m("a"), str("c")))
	}
	if g.has(kAny) {
		x := func(i string) string { return S(kAny, i) }
		g.add("type switch with many cases and reboxing", fmt.Sprintf("v := %s\nvar out: interface{}\nswitch t := v.(type) {\ncase int:\nout = itoa(t)\ncase string:\nout = []int{len(t), c}\ncase []int:\nout = hSI(t) %% 1000\ncase f64:\nout = int(t)\ndefault:\nout = v\n}\n%s = out\nreturn hA(out)", x("a"), x("b")))
	}
}

// formOps4: embedding through pointers / two levels / interfaces, bound method
// values, pointers to pointers, captured variables that are written, string and
// byte conversions, labelled loops, comparisons of temporaries, append to map
// elements.
func (g *gen) formOps4() {
	S := g.slot
	si := func(i string) string { return S(kSliceInt, i) }
	str := func(i string) string { return S(kStr, i) }
	clip := func(v string) string { return "if len(" + v + ") > 150 {\n" + v + " = " + v + "[:20]\n}\n" }
	g.add("struct embedding a pointer: promoted field, promoted method, store through it", fmt.Sprintf("e := PtrEmb{Base: &Base{note: %s, hist: %s}, tag: %s}\ne.id = b\ne.Push(c)\nif len(e.hist) > 40 {\ne.hist = e.hist[:4]\n}\nr := e.note + e.Describe() + e.tag\n"+clip("r")+"f := e\n%s = f.hist\n%s = r\nreturn hStr(r) + hSI(f.hist) + i64(f.id)", str("b"), si("c"), str("c"), si("a"), str("a")))
	g.add("pointer to a struct embedding a pointer, boxed as interface", fmt.Sprintf("e := &PtrEmb{Base: &Base{note: %s}, tag: \"t\"}\nx: Describer = e\ny: Describer = e.Base\nr := x.Describe() + y.Describe() + e.note\n"+clip("r")+"%s = r\nreturn hStr(r)", str("b"), str("a")))
	g.add("two levels of embedding by value", fmt.Sprintf("d := Deep{k: %s}\nd.note = %s\nd.extra = d.k + \"e\"\nd.Push(b)\nd.Derived.Base.hist = append(d.hist, c)\ne := d\nr := e.Describe() + e.extra + e.Derived.note\n"+clip("r")+"%s = r\nreturn hStr(r) + hSI(e.hist)", str("b"), str("c"), str("a")))
	g.add("struct embedding an interface", fmt.Sprintf("w := IfEmb{Describer: &Base{note: %s, id: b}, pre: %s}\nv := w\nr := v.pre + v.Describe()\nw.Describer = &Derived{extra: \"x\"}\nr += w.Describe()\n"+clip("r")+"%s = r\nreturn hStr(r)", str("b"), str("c"), str("a")))
	g.add("bound method value", fmt.Sprintf("bs := &Base{note: %s, id: c}\nf := bs.Describe\npush := bs.Push\npush(b)\npush(c)\nr := f() + f()\n"+clip("r")+"%s = r\n%s = bs.hist\nreturn hStr(r) + hSI(bs.hist)", str("b"), str("a"), si("a")))
	g.add("captured variables written by the closure", fmt.Sprintf("acc := %s\nlst := %s\nadd := func(s: string) {\nacc = acc + s\nlst = append(lst, len(acc))\n}\nfor i := 0; i < 1+c%%4; i++ {\nadd(itoa(i + b))\n}\n"+clip("acc")+"if len(lst) > 40 {\nlst = lst[:4]\n}\n%s = acc\n%s = lst\nreturn hStr(acc) + hSI(lst)", str("b"), si("c"), str("a"), si("a")))
	g.add("string to bytes and back, byte-wise edit", fmt.Sprintf("bs := []byte(%s + \"ab\")\nfor i := range bs {\nif i%%3 == c%%3 {\nbs[i] = byte('a' + (b+i)%%26)\n}\n}\nt := string(bs[1:])\nu := string(bs[:1]) + t\n"+clip("u")+"%s = u\nreturn hStr(u) + i64(len(t))", str("b"), str("a")))
	g.add("labelled continue and break with references in scope", fmt.Sprintf("r := \"\"\nn := 0\nouter:\nfor i := 0; i < 4; i++ {\nrow := %s + itoa(i)\nfor j := 0; j < 4; j++ {\ncell := row + itoa(j)\nif (i+j+b)%%5 == 0 {\ncontinue outer\n}\nif (i*j+c)%%7 == 6 {\nbreak outer\n}\nif len(r) < 100 {\nr += cell[len(cell)-2:]\n}\nn++\n}\n}\n%s = r\nreturn hStr(r) + i64(n)", str("b"), str("a")))
	g.add("comparisons of temporaries", fmt.Sprintf("x, y := %s, %s\nn := 0\nif x+\"a\" < y+\"b\" {\nn += 1\n}\nif x+y == y+x {\nn += 2\n}\nia: interface{} = x + \"q\"\nib: interface{} = y + \"q\"\nif ia == ib {\nn += 4\n}\nif ia != nil && itoa(b) >= itoa(c) {\nn += 8\n}\nreturn i64(n)", str("b"), str("c")))
	g.add("append to a map element", fmt.Sprintf("m := make(map[string][]string)\nfor i := 0; i < 2+c%%3; i++ {\nk := itoa((b + i) %% 2)\nm[k] = append(m[k], %s+k)\n}\nr := \"\"\nfor _, v := range m[\"0\"] {\nr += v\n}\nr += itoa(len(m[\"1\"]))\n"+clip("r")+"%s = r\nreturn hStr(r)", str("b"), str("a")))
	g.add("package-level variables parked and cleared with constants", fmt.Sprintf("gStr = %s + \"g\"\ngNode = &Node{val: b, name: itoa(c)}\ngSI = append([]int{}, c, b)\ngAny = %s\nk := c\ngFn = func() => int {\nreturn k + 1\n}\nr := hStr(gStr) + hN(gNode) + hSI(gSI) + i64(gFn())\nif s, ok := gAny.(string); ok {\nr += hStr(s)\n}\ngStr = \"\"\ngNode = nil\ngSI = nil\ngAny = nil\ngFn = nil\nreturn r", str("b"), str("c")))
	g.add("package-level variables left parked, overwritten by the next visit", fmt.Sprintf("old := gStr\ngStr = %s + itoa(b)\nn := gNode\ngNode = &Node{val: c, rank: 0, name: old}\nif n != nil {\ngNode.val += n.val %% 7\n}\ngSI = append(gSI, b)\nif len(gSI) > 20 {\ngSI = gSI[:2]\n}\n"+clip("gStr")+"%s = old\nreturn hStr(old) + hN(gNode) + hSI(gSI)", str("b"), str("a")))
	g.add("fields of a package-level struct and constant-index array elements", fmt.Sprintf("gHold.any = %s\ngHold.rows = append(gHold.rows, %s)\nif len(gHold.rows) > 6 {\ngHold.rows = nil\n}\ngHold.arr[1] = %s\ngArr[2] = gHold.arr[1] + \"z\"\ngArr[0] = gArr[2]\nr := hH(&gHold) + hStr(gArr[0])\nif c%%3 == 0 {\ngHold.any = nil\ngHold.arr[1] = \"\"\ngArr[2] = \"\"\ngArr[0] = \"\"\n}\nif c%%5 == 0 {\ngHold.rows = nil\n}\nreturn r", str("b"), si("c"), str("c")))
	g.add("constant index of array-valued call results", fmt.Sprintf("st := mkStore(%s, %s, b)\nx := st.Snapshot()[0]\ny := mkArr(x, %s)[1]\nz := mkStore(y, x, c).names[1]\nn := st.Nodes()[0]\nfor i := 0; i < 1+c%%3; i++ {\nx = st.Snapshot()[1] + itoa(i)\nn = st.Nodes()[0]\n}\nr := x + y + z + st.names[0]\n"+clip("r")+"%s = r\nreturn hStr(r) + hN(n) + hN(st.nodes[0])", str("b"), str("c"), str("c"), str("a")))
	g.add("single-value assertion from one interface type to another, repeated", fmt.Sprintf("rs := &Res{name: %s, data: %s}\nx: interface{} = rs\nr := \"\"\nfor i := 0; i < 1+c%%3; i++ {\nr += textOf(x, i)\ncl := x.(Closer)\nr += cl.Text(b)\n}\nbs := &Base{note: %s, id: b}\nvar y: interface{} = bs\nr += descOf(y) + descOf(y)\nfresh := %s + \"f\"\nr += rs.name + bs.note + fresh\n"+clip("r")+"%s = r\nreturn hStr(r) + hSI(rs.data)", str("b"), si("c"), str("c"), str("b"), str("a")))
	g.add("method value bound to an interface receiver, called", fmt.Sprintf("d: Describer = &Base{note: %s, id: c}\nf := d.Describe\nr := f()\nfor i := 0; i < 1+b%%3; i++ {\nr += f()\n}\ncl: Closer = &Res{name: %s, data: %s}\ng := cl.Text\nh := cl.Rows\nr += g(b)\nrows := h()\nunused := d.Describe\n_ = unused\n"+clip("r")+"%s = r\n%s = rows\nreturn hStr(r) + hSI(rows)", str("b"), str("c"), si("c"), str("a"), si("a")))
	g.add("generic function alternatives chosen by argument type", fmt.Sprintf("x := %s\nr := joinAny(x, %s) + joinAny(x, %s) + joinAny(x, &Node{name: itoa(c)})\nnn: *Node\nr += joinAny(r, nn)\n"+clip("r")+"%s = r\nreturn hStr(r)", str("b"), str("c"), si("c"), str("a")))
	g.add("operator on struct values with reference fields, chained generic methods", fmt.Sprintf("p := Tag{s: %s, v: %s}\nq := Tag{s: itoa(b), v: []int{c}}\nsum := p + q\nsum2 := sum + p\nt := &Tag{s: \"t\"}\nt.Append(sum.s).Append(b).Append(\"x\").Append(c)\nr := sum2.s + t.s\nw := append(sum2.v, t.v...)\nif len(w) > 40 {\nw = w[:4]\n}\n"+clip("r")+"%s = r\n%s = w\nreturn hStr(r) + hSI(w)", str("b"), si("c"), str("a"), si("a")))
	g.add("function returning a closure over its parameters", fmt.Sprintf("f := mkAdder2(%s, %s)\ng2 := mkAdder2(itoa(b), nil)\nr := f(\"a\") + g2(f(\"b\")) + f(itoa(c))\n"+clip("r")+"%s = r\nreturn hStr(r)", str("b"), si("c"), str("a")))
	g.add("conversion temporaries passed directly as arguments", fmt.Sprintf("x := %s + \"tmp\"\nn := lenOf([]byte(x)) + lenOf([]byte(x + itoa(b)))\nr := upper1(string([]byte(x)[1:])) + upper1(string([]byte(%s)))\nfor i := 0; i < 1+c%%3; i++ {\nn += lenOf([]byte(itoa(i) + r))\n}\n"+clip("r")+"%s = r\nreturn hStr(r) + i64(n)", str("b"), str("c"), str("a")))
	g.add("append to a slice field of a slice element through index expressions", fmt.Sprintf("ps := []Pair{{a: b, s: %s}, {a: c, s: \"q\"}}\nfor i := 0; i < 2+c%%3; i++ {\nps[i%%2].v = append(ps[i%%2].v, b+i)\nps[(i+1)%%2].s += itoa(i)\n}\nqs := ps\nqs[0].v = append(qs[0].v, c)\nps = append(ps, qs[1])\nr := ps[0].s + ps[2].s\n"+clip("r")+"%s = r\n%s = ps[0].v\nreturn hStr(r) + hSI(ps[0].v) + hSI(qs[1].v) + i64(len(ps))", str("b"), str("a"), si("a")))
	g.add("field / element address first taken inside a loop (loop-carried pointer)", fmt.Sprintf("nd := &Node{val: b, rank: 0, name: %s}\nr := loopFieldAddr(nd, 2+c%%4)\nps := []Pair{{a: b, s: nd.name}, {a: c}}\nr += loopElemAddr(ps, 3+b%%3)\nx := &Node{val: r, name: itoa(c)}\nreturn hN(nd) + hN(x) + i64(r) + i64(ps[0].a)", str("b")))
	g.add("decoding strings that end in a truncated multi-byte sequence", fmt.Sprintf("x := []byte(%s + \"世😀\")\nt := string(x[:len(x)-1-c%%3])\nn := 0\nfor i, r := range t {\nn += int(r) + i\n}\nrs := []rune(t)\nu := string(rs)\nfor _, r := range u[:len(u)-b%%2] {\nn += int(r)\n}\nw := t[len(t)-1-c%%2:] + \"\"\nfor _, r := range w {\nn += int(r)\n}\n"+clip("u")+"%s = u\nreturn i64(n)*7 + i64(len(rs)) + hStr(u)", str("b"), str("a")))
	g.add("string to runes and back", fmt.Sprintf("rs := []rune(%s + \"世a\")\nfor i := range rs {\nif i%%2 == c%%2 {\nrs[i] = rune('b' + (b+i)%%20)\n}\n}\nu := string(rs[1:]) + string(rs[0]) + string(rune(0x4e16+b%%8))\n"+clip("u")+"%s = u\nreturn hStr(u) + i64(len(rs))", str("b"), str("a")))
	g.add("local array of strings copied by value", fmt.Sprintf("arr: [3]string\narr[b%%3] = %s\narr[c%%3] = %s + \"k\"\nt := arr\nt[0] = t[1] + t[2]\nr := arr[0] + \"|\" + t[0]\n"+clip("r")+"%s = r\nreturn hStr(r)", str("b"), str("c"), str("a")))
	g.add("slice of slices of strings, inner append", fmt.Sprintf("rows := [][]string{}\nfor i := 0; i < 1+c%%3; i++ {\nrows = append(rows, []string{%s})\nrows[i] = append(rows[i], itoa(i+b))\nrows[0] = append(rows[0], rows[i][0])\n}\nr := \"\"\nfor _, row := range rows {\nfor _, x := range row {\nif len(r) < 120 {\nr += x\n}\n}\n}\n%s = r\nreturn hStr(r) + i64(len(rows[0]))", str("b"), str("a")))
	g.add("tuple assignment of strings", fmt.Sprintf("x, y := %s, %s\nfor i := 0; i < 1+c%%3; i++ {\nx, y = y, x+itoa(i)\n}\n"+clip("x")+clip("y")+"%s, %s = y, x\nreturn hStr(x) + hStr(y)", str("b"), str("c"), str("a"), str("b")))
	g.add("named results changed by deferred closures", fmt.Sprintf("r, l := namedRes(%s, b)\nr2, _ := namedRes(r, c)\n"+clip("r2")+"%s = r2\n%s = l\nreturn hStr(r2) + hSI(l)", str("b"), str("a"), si("a")))
	g.add("variadic interface arguments", fmt.Sprintf("bs := &Base{note: %s}\nr := catAny(%s, b, %s, bs, nil, itoa(c))\nr += catAny()\n"+clip("r")+"%s = r\nreturn hStr(r)", str("c"), str("b"), si("c"), str("a")))
	g.add("methods through slice elements", fmt.Sprintf("ps := []Base{{note: %s}, {note: \"q\"}}\nfor i := range ps {\nps[i].Push(b + i)\nps[i].note += itoa(i)\n}\nqs := append([]Base{}, ps...)\nqs[0].Push(c)\nr := ps[0].Describe() + qs[0].Describe() + qs[1].Describe()\n"+clip("r")+"%s = r\nreturn hStr(r) + hSI(ps[0].hist) + hSI(qs[0].hist)", str("b"), str("a")))
	if g.has(kNode) {
		n := func(i string) string { return S(kNode, i) }
		g.add("pointer to pointer", fmt.Sprintf("p := %s\npp := &p\nq := *pp\nif q != nil {\npp = &q.next\nif *pp != nil {\nq = *pp\n}\n}\nr := &Node{val: b, rank: 0, name: itoa(c)}\nhold := &r\n(*hold).items = append((*hold).items, c)\nreturn hN(q) + hN(*hold)", n("a")))
	}
}

func (g *gen) emit() *Driver {
	var b strings.Builder
	b.WriteString("// generated driver (verification harness)\n")
	b.WriteString(prelude)
	b.WriteString("\n")
	for _, k := range g.order {
		f := g.fams[k]
		fmt.Fprintf(&b, "global %s: [%d]%s\n", f.name, g.S, f.typ)
	}
	b.WriteString("\n")
	for _, k := range g.order {
		f := g.fams[k]
		fmt.Fprintf(&b, "func id_%s(x: %s) => %s {\n\ty := x\n\treturn y\n}\n\n", f.name, f.typ, f.typ)
		fmt.Fprintf(&b, "func pair_%s(x: %s, y: %s) => (%s, %s) {\n\treturn y, x\n}\n\n", f.name, f.typ, f.typ, f.typ, f.typ)
		fmt.Fprintf(&b, "func defer_%s(a: int, b: int) {\n\tt := %s[b]\n\tdefer func() {\n\t\t%s[a] = t\n\t}()\n\t%s[a] = %s\n}\n\n", f.name, f.name, f.name, f.name, f.zero)
	}
	// reset
	b.WriteString("#wa:export reset\nfunc reset() {\n\tfor i := 0; i < " + fmt.Sprint(g.S) + "; i++ {\n")
	for _, k := range g.order {
		f := g.fams[k]
		fmt.Fprintf(&b, "\t\t%s[i] = %s\n", f.name, f.zero)
	}
	b.WriteString("\t}\n\tclearGlobals()\n}\n\n")
	fmt.Fprintf(&b, "#wa:export step\nfunc step(op: i32, a0: i32, b0: i32, c0: i32) => i64 {\n\ta := int(a0) %% %d\n\tb := int(b0)\n\tc := int(c0)\n\t_ = a\n\t_ = b\n\t_ = c\n\tswitch op {\n", g.S)
	for i := range g.cases {
		fmt.Fprintf(&b, "\tcase %d:\n\t\treturn op%d(a, b, c)\n", i, i)
	}
	b.WriteString("\t}\n\treturn -2\n}\n\n")
	S := fmt.Sprint(g.S)
	for i, body := range g.cases {
		fmt.Fprintf(&b, "// %s\nfunc op%d(a: int, b: int, c: int) => i64 {\n", g.desc[i], i)
		// the slot indices b and c, when used as indices, are reduced here
		body = reduceIdx(body, S)
		for _, line := range strings.Split(body, "\n") {
			b.WriteString("\t" + line + "\n")
		}
		b.WriteString("}\n\n")
	}
	b.WriteString("func main {\n\treset()\n}\n")
	d := &Driver{Source: b.String(), NOps: len(g.cases), Slots: g.S, OpDesc: g.desc}
	for _, k := range g.order {
		d.Kinds = append(d.Kinds, g.fams[k].typ)
	}
	d.FamOps = make([][]int, len(g.order))
	for i, body := range g.cases {
		var fs []int
		for fi, k := range g.order {
			if strings.Contains(body, g.fams[k].name+"[") || strings.Contains(body, "_"+g.fams[k].name+"(") {
				fs = append(fs, fi)
				d.FamOps[fi] = append(d.FamOps[fi], i)
			}
		}
		d.OpFams = append(d.OpFams, fs)
	}
	return d
}

// reduceIdx rewrites slot index uses "[b]" and "[c]" to "[b%S]"/"[c%S]" with
// non-negative operands guaranteed by the harness.
func reduceIdx(body, S string) string {
	for _, v := range []string{"b", "c"} {
		for _, name := range slotNames {
			body = strings.ReplaceAll(body, name+"["+v+"]", name+"["+v+"%"+S+"]")
		}
	}
	return body
}

var slotNames = func() []string {
	var s []string
	for _, in := range kindInfo {
		s = append(s, in[0])
	}
	return s
}()
