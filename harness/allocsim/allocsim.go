// Package allocsim is the simulator's side of the allocator seam under a
// compiled Wa program (wab.Host): it observes every malloc/free, injects the
// allocator faults (dirty fresh memory, poison on free, immediate reuse,
// quarantine, scattered placement) and monitors the C11 safety conditions.
package allocsim

import (
	"fmt"

	"verif/harness/tape"
)

type Mode int

const (
	Plain         Mode = iota // real allocator, nothing injected: the reference behaviour
	WrapPoison                // real allocator; fresh payloads dirtied, freed payloads poisoned before the real free
	SimLifo                   // host allocator; a freed block is the first candidate for the next request of its size
	SimQuarantine             // host allocator; freed blocks are poisoned, never reused, and must stay poisoned
	SimScatter                // host allocator; tape-chosen gaps and reuse choices, dirty fresh memory
	NModes
	// SimBenign is not a fault mode: the host allocator places blocks itself
	// (addresses differ from the real allocator's) but never reuses, poisons or
	// dirties anything. A program whose output differs between Plain and SimBenign
	// prints or branches on addresses; its output says nothing under the sim_* modes.
	SimBenign Mode = NModes + 1
)

var ModeNames = []string{"plain", "wrap_poison", "sim_lifo", "sim_quarantine", "sim_scatter", "", "sim_benign"}

const poison = 0xDD

type blk struct{ ptr, size uint32 }

type Host struct {
	Mode Mode
	T    *tape.Tape // only used by SimScatter
	// region owned by the host allocator in sim modes
	Base, Limit uint32
	bump        uint32

	Live      map[uint32]uint32 // ptr -> size
	LiveBytes uint64
	free      map[uint32][]uint32 // size -> freed ptrs (lifo / scatter)
	quar      []blk
	quarCheck int

	// monitor
	Violation string // first monitor violation ("" = none)
	VClass    string
	Trouble   string

	// stats
	Mallocs, Frees     int
	Reused             int
	PoisonedBytes      uint64
	DirtiedBytes       uint64
	ZeroChecks         int
	QuarChecks         int
	PeakLive           int
	serial             uint32
	lastFreedPtr       uint32
	ImmediateReuseHits int
}

func New(mode Mode, t *tape.Tape, base, limit uint32) *Host {
	b := (base + 64 + 7) &^ 7
	return &Host{Mode: mode, T: t, Base: b, Limit: limit, bump: b, Live: map[uint32]uint32{}, free: map[uint32][]uint32{}}
}

func (h *Host) viol(class, msg string) {
	// once the simulated region is exhausted the real allocator hands out
	// memory inside it: nothing observed after that point means anything
	if h.Violation == "" && h.Trouble == "" {
		h.VClass, h.Violation = class, msg
	}
}

func round8(n uint32) uint32 { return (n + 7) &^ 7 }

func (h *Host) dirty(mem []byte, ptr, size uint32) {
	h.serial++
	if uint64(ptr)+uint64(size) > uint64(len(mem)) {
		return
	}
	p := mem[ptr : ptr+size]
	s := byte(h.serial*37 + 0x11)
	for i := range p {
		p[i] = s | 1 // never zero
		s += 29
	}
	h.DirtiedBytes += uint64(size)
}

func (h *Host) PreMalloc(mem []byte, size uint32) uint32 {
	h.Mallocs++
	if h.Mode == Plain || h.Mode == WrapPoison {
		return 0
	}
	sz := round8(size)
	if sz == 0 {
		sz = 8
	}
	if h.Limit == 0 || h.Limit > uint32(len(mem)) {
		h.Limit = uint32(len(mem))
	}
	var ptr uint32
	switch h.Mode {
	case SimLifo:
		if l := h.free[sz]; len(l) > 0 {
			ptr = l[len(l)-1]
			h.free[sz] = l[:len(l)-1]
			h.Reused++
			if ptr == h.lastFreedPtr {
				h.ImmediateReuseHits++
			}
		}
	case SimScatter:
		l := h.free[sz]
		c := h.T.Draw(4) // 0: bump, else reuse a tape-chosen freed block
		i := h.T.Draw(8)
		if len(l) > 0 && c != 0 {
			i %= len(l)
			ptr = l[i]
			l[i] = l[len(l)-1]
			h.free[sz] = l[:len(l)-1]
			h.Reused++
		}
	}
	if ptr == 0 {
		gap := uint32(0)
		if h.Mode == SimScatter {
			gap = uint32(h.T.Draw(9)) * 8
		}
		ptr = h.bump + gap
		if uint64(ptr)+uint64(sz) > uint64(h.Limit) {
			h.Trouble = fmt.Sprintf("simulated heap region exhausted (%d bytes)", h.Limit-h.Base)
			// fall back to the real allocator so the program can finish; the run is discarded
			return 0
		}
		h.bump = ptr + sz
	}
	h.Live[ptr] = sz
	h.LiveBytes += uint64(sz)
	if len(h.Live) > h.PeakLive {
		h.PeakLive = len(h.Live)
	}
	if h.Mode != SimBenign {
		h.dirty(mem, ptr, sz)
	}
	return ptr
}

func (h *Host) PostMalloc(mem []byte, ptr, size uint32) {
	// real allocator returned ptr
	if ptr == 0 {
		h.Trouble = "real allocator returned 0 (out of memory)"
		return
	}
	if _, dup := h.Live[ptr]; dup {
		h.viol("alloc_overlap", fmt.Sprintf("allocator returned %d which is still live", ptr))
	}
	sz := round8(size)
	h.Live[ptr] = sz
	h.LiveBytes += uint64(sz)
	if len(h.Live) > h.PeakLive {
		h.PeakLive = len(h.Live)
	}
	if h.Mode == WrapPoison {
		h.dirty(mem, ptr, sz)
	}
}

func (h *Host) PreFree(mem []byte, ptr uint32) uint32 {
	h.Frees++
	sz, ok := h.Live[ptr]
	if !ok {
		h.viol("bad_free", fmt.Sprintf("free(%d): not a live block (double free, or a pointer that malloc never returned)", ptr))
		return 0 // do not hand a bogus pointer to the real allocator
	}
	delete(h.Live, ptr)
	h.LiveBytes -= uint64(sz)
	h.lastFreedPtr = ptr
	if h.Mode == Plain {
		return 1
	}
	if h.Mode == SimBenign {
		return 0 // never reused, never touched
	}
	if uint64(ptr)+uint64(sz) <= uint64(len(mem)) {
		p := mem[ptr : ptr+sz]
		for i := range p {
			p[i] = poison
		}
		h.PoisonedBytes += uint64(sz)
	}
	switch h.Mode {
	case WrapPoison:
		return 1
	case SimLifo, SimScatter:
		h.free[sz] = append(h.free[sz], ptr)
	case SimQuarantine:
		h.quar = append(h.quar, blk{ptr, sz})
		// full scans at geometrically growing distances: every 64 releases while
		// the quarantine is small, every len/8 once it is large (total cost stays
		// linear in the number of releases)
		h.quarCheck++
		if every := len(h.quar) / 8; h.quarCheck >= 64 && h.quarCheck >= every {
			h.quarCheck = 0
			h.CheckQuarantine(mem)
		}
	}
	return 0
}

// CheckQuarantine verifies that every released block still holds the poison:
// a changed byte means the program wrote to memory it had released.
func (h *Host) CheckQuarantine(mem []byte) {
	if h.Mode != SimQuarantine {
		return
	}
	h.QuarChecks++
	for _, b := range h.quar {
		if uint64(b.ptr)+uint64(b.size) > uint64(len(mem)) {
			continue
		}
		for i, x := range mem[b.ptr : b.ptr+b.size] {
			if x != poison {
				h.viol("write_after_free", fmt.Sprintf("released block %d (size %d): byte %d changed from poison to %#x: the program wrote to released memory", b.ptr, b.size, i, x))
				return
			}
		}
	}
}

func (h *Host) PostHeapAlloc(mem []byte, ptr, nbytes uint32) {
	if ptr == 0 || nbytes == 0 {
		return
	}
	h.ZeroChecks++
	n := round8(nbytes)
	if uint64(ptr)+uint64(n) > uint64(len(mem)) {
		h.viol("bad_alloc", fmt.Sprintf("HeapAlloc(%d) returned %d: outside memory", nbytes, ptr))
		return
	}
	for i, x := range mem[ptr : ptr+n] {
		if x != 0 {
			h.viol("not_zeroed", fmt.Sprintf("HeapAlloc(%d) returned %d whose byte %d reads %#x, not zero", nbytes, ptr, i, x))
			return
		}
	}
}
