// Package c25: SLIP / SLIPMUX framing under a simulated byte-stream transport.
//
// Real: slip.Writer, slip.Reader, SlipMuxWriter, SlipMuxReader, FCS.
// Simulated: the byte stream between them (sim.Stream): bounded chunk sizes,
// transient empty reads of each documented kind at every position.
package c25

import (
	"bytes"
	"fmt"

	"verif/harness/sim"
	"verif/harness/tape"
	"wa-lang.org/wa/verifbridge/slipb"
)

type Engine struct {
	tier string
}

func New() sim.Engine { return &Engine{} }

func (e *Engine) Setup(tier string) error { e.tier = tier; return nil }
func (e *Engine) Strides() []int          { return []int{2} }

type pkt struct {
	Frame   byte
	Payload []byte
}

type sample struct {
	Mode    string   `json:"mode"`
	Packets []string `json:"packets"`
	Wire    string   `json:"wire"`
	Fault   string   `json:"fault"`
	Log     []string `json:"log,omitempty"`
}

func (s *sample) LogLines() []string { return s.Log }

func genByte(t *tape.Tape) byte {
	k := t.Draw(8)
	v := t.Draw(256)
	switch k {
	case 4:
		return slipb.END
	case 5:
		return slipb.ESC
	case 6:
		return slipb.ESC_END
	case 7:
		return slipb.ESC_ESC
	}
	return byte(v)
}

func genPayload(t *tape.Tape, min int) []byte {
	var n int
	switch t.Pick(6, 3, 1) {
	case 0:
		n = t.Range(1, 6)
	case 1:
		n = t.Range(1, 40)
	default:
		n = t.Range(1, 300)
	}
	if n < min {
		n = min
	}
	p := make([]byte, n)
	for i := range p {
		p[i] = genByte(t)
	}
	return p
}

// consumeRaw follows the documented protocol of slip.Reader: fragments returned
// with isPrefix=true are concatenated until a fragment with isPrefix=false.
func consumeRaw(st *sim.Stream, want int, strict bool) (got [][]byte, note string) {
	r := slipb.NewReader(st)
	for len(got) < want {
		var acc []byte
		for {
			p, isPrefix, err := r.ReadPacket()
			if strict && (isPrefix || err != nil) {
				return got, fmt.Sprintf("fault-free stream: ReadPacket returned isPrefix=%v err=%v", isPrefix, err)
			}
			acc = append(acc, p...)
			if !isPrefix {
				break
			}
		}
		got = append(got, acc)
	}
	return got, ""
}

func consumeMux(st *sim.Stream, want int) (got []pkt, note string) {
	r := slipb.NewSlipMuxReader(st)
	for len(got) < want {
		p, f, err := r.ReadPacket()
		if err != nil {
			return got, "SlipMuxReader error: " + err.Error()
		}
		got = append(got, pkt{f, append([]byte(nil), p...)})
	}
	return got, ""
}

type outcome struct {
	class, detail string
}

func (e *Engine) check(mux bool, pkts []pkt, st *sim.Stream, strict bool) (oc *outcome) {
	defer func() {
		if r := recover(); r != nil {
			if r == sim.ErrLivelock {
				oc = &outcome{"not_delivered", "reader never delivered the remaining packets although every byte was available (bounded liveness)"}
				return
			}
			oc = &outcome{"panic", fmt.Sprint(r)}
		}
	}()
	if mux {
		want := 0
		for _, p := range pkts {
			if !isReservedFrame(p.Frame) {
				want++
			}
		}
		got, note := consumeMux(st, want)
		if note != "" {
			return &outcome{"reader_error", note}
		}
		// Frames written with a reserved type (0x00, END, ESC) are line noise to
		// a SLIPMUX reader: it may drop them (this reader does) or hand them
		// over as written; every other frame is delivered exactly, in order, and
		// nothing that was never written is delivered.
		j := 0
		for i := range got {
			for j < len(pkts) && isReservedFrame(pkts[j].Frame) &&
				!(got[i].Frame == pkts[j].Frame && bytes.Equal(got[i].Payload, pkts[j].Payload)) {
				j++
			}
			if j >= len(pkts) {
				return &outcome{"never_written", fmt.Sprintf("packet %d: frame %#x payload % x was never written", i, got[i].Frame, got[i].Payload)}
			}
			if got[i].Frame != pkts[j].Frame {
				return &outcome{"frame_mismatch", fmt.Sprintf("packet %d: frame %#x, written %#x", i, got[i].Frame, pkts[j].Frame)}
			}
			if !bytes.Equal(got[i].Payload, pkts[j].Payload) {
				return &outcome{"payload_mismatch", fmt.Sprintf("packet %d: got % x, written % x", i, got[i].Payload, pkts[j].Payload)}
			}
			j++
		}
		return nil
	}
	got, note := consumeRaw(st, len(pkts), strict)
	if note != "" {
		return &outcome{"strict_prefix", note}
	}
	for i := range pkts {
		if !bytes.Equal(got[i], pkts[i].Payload) {
			return &outcome{"payload_mismatch", fmt.Sprintf("packet %d: got % x, written % x", i, got[i], pkts[i].Payload)}
		}
	}
	return nil
}

// isIPFrame is the SLIPMUX draft's own definition (not the implementation's
// helper): an IPv4 packet starts with 0x45..0x4f, an IPv6 packet with 0x60..0x6f;
// only those are sent without a frame byte.
// isReservedFrame: the frame types the SLIPMUX draft reserves because they
// collide with the SLIP special bytes, and 0x00.
func isReservedFrame(f byte) bool { return f == 0xc0 || f == 0xdb || f == 0x00 }

func isIPFrame(f byte) bool { return (f >= 0x45 && f <= 0x4f) || (f >= 0x60 && f <= 0x6f) }

// faultWriter is the sender's transport: Write call number failAt fails with
// (0, error) and writes nothing.
type faultWriter struct {
	buf    bytes.Buffer
	calls  int
	failAt int
}

type timeoutErr struct{}

func (timeoutErr) Error() string   { return "simulated write timeout" }
func (timeoutErr) Timeout() bool   { return true }
func (timeoutErr) Temporary() bool { return true }

func (w *faultWriter) Write(p []byte) (int, error) {
	k := w.calls
	w.calls++
	if k == w.failAt {
		return 0, timeoutErr{}
	}
	return w.buf.Write(p)
}

// writeAll sends the packets through ONE writer. A packet whose WritePacket
// fails is retried once (retry) or given up. It returns the packets whose
// WritePacket returned nil, and whether every failed call left the wire as it was.
func writeAll(mux bool, pkts []pkt, w *faultWriter, retry bool) (sent []pkt, clean bool) {
	clean = true
	var sw *slipb.Writer
	var mw *slipb.SlipMuxWriter
	if mux {
		mw = slipb.NewSlipMuxWriter(w)
	} else {
		sw = slipb.NewWriter(w)
	}
	write := func(p pkt) error {
		if mux {
			return mw.WritePacket(p.Frame, p.Payload)
		}
		return sw.WritePacket(p.Payload)
	}
	for _, p := range pkts {
		before := w.buf.Len()
		err := write(p)
		if err != nil {
			if w.buf.Len() != before {
				clean = false
			}
			if !retry {
				continue
			}
			before = w.buf.Len()
			if err = write(p); err != nil {
				if w.buf.Len() != before {
					clean = false
				}
				continue
			}
		}
		sent = append(sent, p)
	}
	return sent, clean
}

func (e *Engine) Run(t *tape.Tape, keep bool) *sim.Result {
	res := sim.NewResult()
	var log tape.Log
	log.Keep = keep
	mux := t.Draw(2) == 1
	n := t.Pick(4, 3, 2, 1) + 1
	if n == 4 {
		n = t.Range(4, 12)
	}
	pkts := make([]pkt, n)
	for i := range pkts {
		if mux {
			var f byte
			noise := t.Pick(6, 4, 4, 4, 2)
			switch noise {
			case 4:
				// line noise: a frame with a reserved type, never as the last one
				f = []byte{0xc0, 0xdb, 0x00}[t.Draw(3)]
			case 0:
				f = byte(t.Draw(256))
				if f%8 == 0 {
					// frame types that look like the escape codes
					f = []byte{slipb.ESC_END, slipb.ESC_ESC}[int(f/8)%2]
				} else if f%8 == 1 {
					// the neighbours of the IP ranges and of the CoAP frame type
					f = []byte{0x40, 0x44, 0x45, 0x4f, 0x50, 0x5f, 0x60, 0x6f, 0x70, 0xa8, 0xaa, 0x01, 0xff}[int(f/8)%13]
				}
			case 1:
				f = slipb.FRAME_COAP
			case 2:
				f = byte(0x45 + t.Draw(11))
			case 3:
				f = byte(0x60 + t.Draw(16))
			}
			if isReservedFrame(f) && (noise != 4 || i == len(pkts)-1) {
				f = 0x0a
			}
			min := 1
			if f == slipb.FRAME_COAP {
				min = 4
			}
			p := genPayload(t, min)
			if isIPFrame(f) {
				p[0] = f // IP frames are not prepended: the payload's first byte is the frame byte
			}
			pkts[i] = pkt{f, p}
		} else {
			pkts[i] = pkt{0, genPayload(t, 1)}
		}
	}
	// one writer for the whole stream, as a sender uses it
	wire := &faultWriter{failAt: -1}
	if sent, _ := writeAll(mux, pkts, wire, false); len(sent) != len(pkts) {
		res.Trouble = "writer error on a writer that never fails"
		return res
	}
	w := wire.buf.Bytes()
	mode := "slip"
	if mux {
		mode = "slipmux"
		res.Probes["mode_slipmux"]++
	} else {
		res.Probes["mode_slip"]++
	}
	log.Add(fmt.Sprintf("%s pkts=%d wire=%x", mode, n, w))
	sm := &sample{Mode: mode, Wire: fmt.Sprintf("%x", w)}
	for _, p := range pkts {
		sm.Packets = append(sm.Packets, fmt.Sprintf("%02x:%x", p.Frame, p.Payload))
	}
	res.Sample = sm
	fail := func(oc *outcome, fault string, sig string) *sim.Result {
		sm.Fault = fault
		log.Add("VIOLATION " + oc.class + " " + fault + " " + oc.detail)
		res.Violation = &sim.Violation{Class: oc.class, Signature: mode + ":" + sig, Detail: fault + ": " + oc.detail}
		res.Digest = log.Digest()
		sm.Log = log.Lines
		return res
	}
	mk := func() *sim.Stream {
		st := sim.NewStream(nil)
		st.Buf = w
		st.SpinLimit = len(w) + 2
		return st
	}
	// 1. fault-free configuration, strict.
	if oc := e.check(mux, pkts, mk(), !mux); oc != nil {
		return fail(oc, "no fault", "nofault:"+oc.class)
	}
	res.Steps++
	// 1b. write faults: every Write call of the sender's stream fails once with
	// (0, timeout) - nothing reaches the wire - and the sender either retries the
	// packet on the same writer or gives it up and goes on. What a fault-free reader
	// then delivers must be exactly the packets whose WritePacket returned nil.
	for k := 0; k < wire.calls; k++ {
		for _, retry := range []bool{true, false} {
			fw := &faultWriter{failAt: k}
			sent, clean := writeAll(mux, pkts, fw, retry)
			res.Steps++
			res.Faults["write_error"]++
			if !clean {
				// the failed WritePacket had already put part of the packet on the wire:
				// what the receiver should make of it is not specified
				res.Probes["write_fault_left_partial_packet"]++
				continue
			}
			st := sim.NewStream(nil)
			st.Buf = fw.buf.Bytes()
			st.SpinLimit = len(st.Buf) + 2
			if oc := e.check(mux, sent, st, !mux); oc != nil {
				how := "gives the packet up"
				if retry {
					how = "retries the packet"
				}
				return fail(oc, fmt.Sprintf("Write call %d of the stream fails with (0, timeout), the sender %s: wire %x", k, how, fw.buf.Bytes()),
					fmt.Sprintf("write_fault:retry=%v:%s", retry, oc.class))
			}
		}
	}
	res.Probes["write_fault_executions"] += 2 * wire.calls
	// 2. complete single-stall enumeration: every position x every kind.
	kinds := []int{sim.StallNil, sim.StallEOF, sim.StallTimeout}
	if mux {
		kinds = []int{sim.StallNil, sim.StallEOF}
	}
	limit := 700
	if e.tier == "thorough" {
		limit = 8000
	}
	enumerated := 0
	for pos := 0; pos < len(w); pos++ {
		if len(w) > limit && !(interesting(w, pos)) {
			continue
		}
		for _, k := range kinds {
			st := mk()
			st.StallAt = map[int]int{pos: k}
			oc := e.check(mux, pkts, st, false)
			res.Steps++
			enumerated++
			res.Faults[sim.StallNames[k]] += st.Fired[sim.StallNames[k]]
			if oc != nil {
				prev := "start"
				if pos > 0 {
					prev = fmt.Sprintf("%02x", w[pos-1])
				}
				return fail(oc, fmt.Sprintf("single %s before wire offset %d (after byte %s)", sim.StallNames[k], pos, prev),
					fmt.Sprintf("single_stall:after=%s:%s", prev, oc.class))
			}
		}
	}
	if len(w) <= limit {
		res.Probes["streams_fully_enumerated"]++
	}
	res.Probes["single_stall_executions"] += enumerated
	// 2b. repeated stalls at one position (2 and 3 consecutive empty reads), and
	// for short streams every pair of stall positions (same kind).
	for pos := 0; pos < len(w); pos++ {
		if len(w) > limit && !(interesting(w, pos)) {
			continue
		}
		for _, k := range kinds {
			for _, rep := range []int{2, 3} {
				st := mk()
				st.StallAt = map[int]int{pos: k}
				st.StallRepeat = rep
				oc := e.check(mux, pkts, st, false)
				res.Steps++
				res.Faults[sim.StallNames[k]] += st.Fired[sim.StallNames[k]]
				res.Probes["repeated_stall_executions"]++
				if oc != nil {
					prev := "start"
					if pos > 0 {
						prev = fmt.Sprintf("%02x", w[pos-1])
					}
					return fail(oc, fmt.Sprintf("%d consecutive %s before wire offset %d (after byte %s)", rep, sim.StallNames[k], pos, prev),
						fmt.Sprintf("repeated_stall:after=%s:%s", prev, oc.class))
				}
			}
		}
	}
	if len(w) <= 40 {
		for p1 := 0; p1 < len(w); p1++ {
			for p2 := p1 + 1; p2 < len(w); p2++ {
				for _, k := range kinds {
					st := mk()
					st.StallAt = map[int]int{p1: k, p2: k}
					oc := e.check(mux, pkts, st, false)
					res.Steps++
					res.Faults[sim.StallNames[k]] += st.Fired[sim.StallNames[k]]
					res.Probes["stall_pair_executions"]++
					if oc != nil {
						return fail(oc, fmt.Sprintf("%s before wire offsets %d and %d", sim.StallNames[k], p1, p2), "stall_pair:"+oc.class)
					}
				}
			}
		}
		res.Probes["streams_with_all_stall_pairs_enumerated"]++
	}
	// 3. tape-drawn multi-fault schedules: stalls of drawn kinds, bounded chunks.
	reps := 1 + t.Draw(3)
	for i := 0; i < reps; i++ {
		st := mk()
		st.T = t
		st.StallNum, st.StallDen = 1, 2+t.Draw(12)
		st.StallKinds = kinds
		st.MaxConsecStall = 1 + t.Draw(4)
		st.ShortNum, st.ShortDen = 1, 2
		st.KeepSizes = keep
		oc := e.check(mux, pkts, st, false)
		res.Steps++
		nf := 0
		for k, v := range st.Fired {
			res.Faults[k] += v
			nf += v
		}
		log.Add(fmt.Sprintf("multi %d reads=%d faults=%d", i, st.Reads, nf))
		if nf >= 2 {
			res.Probes["multi_stall_runs"]++
		}
		if oc != nil {
			return fail(oc, fmt.Sprintf("tape-drawn stall schedule %v", st.Fired), "multi_stall:"+oc.class)
		}
	}
	for _, b := range w {
		switch b {
		case slipb.ESC:
			res.Probes["esc_on_wire"]++
		}
	}
	res.Nontrivial = enumerated > 0
	res.Digest = log.Digest()
	sm.Log = log.Lines
	return res
}

// interesting positions for streams too long to enumerate completely: around
// the framing bytes.
func interesting(w []byte, pos int) bool {
	for d := -1; d <= 1; d++ {
		i := pos + d
		if i >= 0 && i < len(w) {
			switch w[i] {
			case slipb.END, slipb.ESC, slipb.ESC_END, slipb.ESC_ESC:
				return true
			}
		}
	}
	return pos < 3
}
