// Package c11 holds the engines for C11 (automatic memory management never
// frees or reuses live data) and C12 (discarded acyclic data is reclaimed).
//
// Real: the whole compiler pipeline on a generated driver program, the
// reference-counting runtime, the assembler, wazero, and (in plain and
// wrap_poison modes) the real allocator. Simulated: what $runtime.malloc and
// $runtime.free do with memory (allocsim), through the WAT seam.
package c11

import (
	"fmt"
	"os"
	"path/filepath"
	"sort"
	"strings"

	"verif/harness/allocsim"
	"verif/harness/engines/c13"
	"verif/harness/sim"
	"verif/harness/tape"
	"verif/harness/wagen"
	"wa-lang.org/wa/verifbridge/wab"
)

type drv struct {
	key uint64
	d   *wagen.Driver
	c   *wab.Compiled
}

type base struct {
	tier  string
	seed  uint64
	run   uint64
	cache []*drv
	built int
	block uint64
}

func (e *base) Setup(tier string) error { e.tier = tier; return nil }
func (e *base) SetRun(seed, run uint64) { e.seed, e.run = seed, run }
func (e *base) Strides() []int          { return []int{6} }
func (e *base) ShrinkBudget() int       { return 500 }
func (e *base) Extra() map[string]any {
	return map[string]any{"drivers_generated_and_compiled_by_this_worker": e.built}
}

// driver returns the generated driver of the current run block.
func (e *base) driver() (*drv, error) {
	key := tape.Mix(e.seed^0xC11, (e.run/(16*e.block))*16+e.run%16)
	for _, d := range e.cache {
		if d.key == key {
			return d, nil
		}
	}
	d := wagen.Generate(tape.NewGen(key, 0))
	c, err := wab.Build("driver.wa", d.Source)
	if err != nil {
		return nil, fmt.Errorf("generated driver (key %d) does not build: %v", key, err)
	}
	e.built++
	nd := &drv{key, d, c}
	if len(e.cache) >= 3 {
		e.cache[0].c.Close()
		e.cache = e.cache[1:]
	}
	e.cache = append(e.cache, nd)
	return nd, nil
}

type op struct{ op, a, b, c int }

// drawOp draws one operation: mostly from the operations that touch the
// history's focus families (so that values are built up, moved and dropped
// coherently instead of every operation hitting an empty slot), else any.
func drawOp(t *tape.Tape, d *wagen.Driver, focus []int) op {
	anyOp := t.Draw(d.NOps)
	pick := t.Draw(4) // 0: any operation; else one of the focus families
	which := t.Draw(1 << 12)
	o := anyOp
	if pick != 0 && len(focus) > 0 {
		ops := d.FamOps[focus[pick%len(focus)]]
		if len(ops) > 0 {
			o = ops[which%len(ops)]
		}
	}
	return op{o, t.Draw(d.Slots), t.Draw(64), t.Draw(64)}
}

func drawFocus(t *tape.Tape, d *wagen.Driver) []int {
	n := len(d.Kinds)
	f := []int{t.Draw(n), t.Draw(n)}
	if t.Draw(3) == 0 {
		return nil // unfocused history
	}
	return f
}

func genOps(t *tape.Tape, d *wagen.Driver, max int) []op {
	var n int
	switch t.Pick(3, 4, 3) {
	case 0:
		n = t.Range(1, 10)
	case 1:
		n = t.Range(1, 80)
	default:
		n = t.Range(1, max)
	}
	focus := drawFocus(t, d)
	ops := make([]op, n)
	for i := range ops {
		ops[i] = drawOp(t, d, focus)
	}
	return ops
}

type sample struct {
	Kinds []string `json:"slot_types"`
	Mode  string   `json:"allocator_mode"`
	Ops   []string `json:"ops"`
	Note  string   `json:"note,omitempty"`
	Log   []string `json:"log,omitempty"`
}

func (s *sample) LogLines() []string { return s.Log }

func describe(d *wagen.Driver, ops []op, keep bool) []string {
	var out []string
	for i, o := range ops {
		if i >= 60 && !keep {
			break
		}
		out = append(out, fmt.Sprintf("%s(a=%d,b=%d,c=%d)", d.OpDesc[o.op], o.a, o.b, o.c))
	}
	return out
}

type trace struct {
	results []int64
	trapAt  int // -1: none
	trapMsg string
	host    *allocsim.Host
	monAt   int // step at which the monitor fired (-1 none)
	trouble string
}

// execute runs the history on a fresh instance under an allocator mode.
func execute(d *drv, ops []op, mode allocsim.Mode, t *tape.Tape) *trace {
	tr := &trace{trapAt: -1, monAt: -1}
	host := allocsim.New(mode, t, d.c.HeapBase, 0)
	tr.host = host
	in, err := d.c.Instantiate(host)
	if err != nil {
		tr.trouble = "instantiate: " + err.Error()
		return tr
	}
	defer in.Close()
	if _, err := in.Call("reset"); err != nil {
		tr.trouble = "reset: " + firstLine(err.Error())
		return tr
	}
	for i, o := range ops {
		r, err := in.Call("step", uint64(o.op), uint64(o.a), uint64(o.b), uint64(o.c))
		if err != nil {
			tr.trapAt = i
			tr.trapMsg = firstLine(err.Error())
			if in.OutOfFuel() {
				tr.trapMsg = "did not terminate within the step bound"
			}
			break
		}
		tr.results = append(tr.results, int64(r[0]))
		if host.Violation != "" && tr.monAt < 0 {
			tr.monAt = i
			break
		}
	}
	if tr.monAt < 0 && tr.trapAt < 0 {
		host.CheckQuarantine(in.Mem())
		if host.Violation != "" {
			tr.monAt = len(ops) - 1
		}
	}
	if host.Trouble != "" {
		tr.trouble = host.Trouble
	}
	return tr
}

func firstLine(s string) string {
	if i := strings.IndexByte(s, '\n'); i >= 0 {
		return s[:i]
	}
	return s
}

// ---------------------------------------------------------------- C11

type Engine11 struct {
	base
	std stdState
}

func New11() sim.Engine { return &Engine11{base: base{block: 96}} }

func (e *Engine11) Extra() map[string]any {
	m := e.base.Extra()
	m["std_test_packages_compiled_by_this_worker"] = e.std.built
	return m
}

// ---- std test packages: the repository's own library tests as a second workload

type stdPkg struct {
	path string
	tp   *wab.TestPackage // nil: does not build / has no tests
}

type stdState struct {
	progs  []string // example programs (files and wa.mod directories)
	paths  []string
	cache  []*stdPkg
	empty  map[string]bool // packages without tests (or that do not build with tests)
	stable map[string]int  // test -> 1 deterministic under the plain allocator, 2 not
	built  int
}

func (s *stdState) pkg(path string) *stdPkg {
	for _, p := range s.cache {
		if p.path == path {
			return p
		}
	}
	var tp *wab.TestPackage
	var err error
	if strings.HasPrefix(path, "/") {
		tp, err = wab.BuildProgram(path)
	} else {
		tp, err = wab.BuildTestPackage(path)
	}
	if err != nil {
		tp = nil
	}
	s.built++
	p := &stdPkg{path, tp}
	if len(s.cache) >= 6 {
		if old := s.cache[0]; old.tp != nil {
			old.tp.Close()
		}
		s.cache = s.cache[1:]
	}
	s.cache = append(s.cache, p)
	return p
}

// stdRun: one test function of one std package, on fresh instances with the
// plain allocator and under a fault mode. Observables: everything the test
// prints and how it ends (assert failure, trap); plus the allocator monitors.
func (e *Engine11) stdRun(t *tape.Tape, keep bool, res *sim.Result, log *tape.Log) *sim.Result {
	st := &e.std
	if st.paths == nil {
		st.paths = wab.StdTestPackages()
		st.stable = map[string]int{}
		st.empty = map[string]bool{}
		root := "/repo/waroot"
		if d := os.Getenv("VERIF_REPO"); d != "" {
			root = d + "/waroot"
		}
		for _, g := range []string{"hello.wa", "hello.wz", "examples/*.wa", "examples/misc/*.wa", "tests/*.wa", "examples/*/wa.mod"} {
			m, _ := filepath.Glob(filepath.Join(root, g))
			sort.Strings(m)
			for _, x := range m {
				if strings.HasSuffix(x, "wa.mod") {
					x = filepath.Dir(x)
				}
				st.progs = append(st.progs, x)
			}
		}
	}
	// one run in four takes an example program (its main function) instead of a std test
	paths := st.paths
	if t.Draw(4) == 3 && len(st.progs) > 0 {
		paths = st.progs
	}
	pi := t.Draw(len(paths))
	ti := t.Draw(1 << 10)
	mode := allocsim.Mode(1 + t.Draw(int(allocsim.NModes)-1))
	// the drawn package, or the next one in the list that has tests
	var p *stdPkg
	for k := 0; k < len(paths); k++ {
		path := paths[(pi+k)%len(paths)]
		if st.empty[path] {
			continue
		}
		p = st.pkg(path)
		if p.tp != nil && len(p.tp.Tests) > 0 {
			if !strings.HasPrefix(path, "/") {
				break
			}
			// an example is usable if it runs to completion unfaulted (the w4 / arduino /
			// canvas examples need host modules the runner does not provide)
			pr := allocsim.New(allocsim.Plain, t, p.tp.HeapBase, 0)
			if _, e := p.tp.Run(p.tp.Tests[0], pr); e == "" && pr.Trouble == "" {
				break
			}
		}
		st.empty[path] = true
	}
	sm := &sample{Mode: allocsim.ModeNames[mode]}
	res.Sample = sm
	if p == nil || p.tp == nil || len(p.tp.Tests) == 0 {
		log.Add("std: no package with tests")
		res.Probes["stdtest_package_without_tests"]++
		res.Digest = log.Digest()
		return res
	}
	test := p.tp.Tests[ti%len(p.tp.Tests)]
	label := "std test " + test
	if strings.HasPrefix(p.path, "/") {
		label = "example " + p.path[strings.Index(p.path, "/waroot/")+8:]
	}
	sm.Ops = []string{label}
	log.Add(fmt.Sprintf("%s mode=%s", label, sm.Mode))
	fail := func(class, detail string) *sim.Result {
		log.Add("VIOLATION " + class + " " + detail)
		res.Violation = &sim.Violation{Class: class, Signature: class + ":" + strings.ReplaceAll(label, " ", ":"), Detail: fmt.Sprintf("%s, allocator mode %s: %s", label, sm.Mode, detail)}
		res.Digest = log.Digest()
		sm.Log = log.Lines
		return res
	}
	ref := allocsim.New(allocsim.Plain, t, p.tp.HeapBase, 0)
	refOut, refErr := p.tp.Run(test, ref)
	if ref.Trouble != "" {
		res.Trouble = ref.Trouble
		return res
	}
	if ref.Violation != "" {
		return fail(ref.VClass, "[plain allocator] "+ref.Violation)
	}
	limit := 30000
	if e.tier == "thorough" {
		limit = 600000
	}
	if ref.Mallocs > limit {
		log.Add("skipped: large")
		res.Probes["stdtest_skipped_too_many_allocations_for_tier"]++
		res.Digest = log.Digest()
		return res
	}
	skey := p.path + "|" + test
	if st.stable[skey] == 0 {
		// a test whose output depends on the clock or the random source says
		// nothing in a differential check: run it twice unfaulted first
		ref2 := allocsim.New(allocsim.Plain, t, p.tp.HeapBase, 0)
		o2, e2 := p.tp.Run(test, ref2)
		if o2 == refOut && e2 == refErr && ref2.Mallocs == ref.Mallocs && ref2.Frees == ref.Frees {
			st.stable[skey] = 1
		} else {
			st.stable[skey] = 2
		}
	}
	if st.stable[skey] == 2 {
		log.Add("skipped: not deterministic under the plain allocator")
		res.Probes["stdtest_skipped_nondeterministic"]++
		res.Digest = log.Digest()
		return res
	}
	h := allocsim.New(mode, t, p.tp.HeapBase, 0)
	gotOut, gotErr := p.tp.Run(test, h)
	if h.Trouble == "" {
		h.CheckQuarantine(p.tp.Mem())
	}
	if h.Trouble != "" {
		// the simulated region is too small for this test under this mode
		log.Add("discarded: " + h.Trouble)
		res.Probes["stdtest_discarded_region_exhausted"]++
		res.Digest = log.Digest()
		return res
	}
	res.Steps += h.Mallocs + h.Frees
	res.Faults["poison_on_free"] += h.Frees
	res.Faults["dirty_fresh_bytes"] += int(h.DirtiedBytes)
	res.Faults["reuse_of_freed_block"] += h.Reused
	res.Faults["immediate_reuse"] += h.ImmediateReuseHits
	res.Faults["mode_"+allocsim.ModeNames[mode]]++
	res.Probes["heapalloc_zero_checks"] += h.ZeroChecks
	res.Probes["quarantine_checks"] += h.QuarChecks
	res.Probes["mallocs"] += h.Mallocs
	res.Probes["frees"] += h.Frees
	res.Probes["stdtest_runs"]++
	if h.Violation != "" {
		return fail(h.VClass, h.Violation)
	}
	if (gotOut != refOut || gotErr != refErr || h.Mallocs != ref.Mallocs || h.Frees != ref.Frees) && mode != allocsim.WrapPoison {
		// the host allocator also moves every block: a program that prints or branches
		// on addresses differs for that reason alone. Decide it with the benign
		// placement-only allocator (no reuse, no poison, no dirt)
		bh := allocsim.New(allocsim.SimBenign, t, p.tp.HeapBase, 0)
		bOut, bErr := p.tp.Run(test, bh)
		if bh.Trouble != "" || bOut != refOut || bErr != refErr || bh.Mallocs != ref.Mallocs || bh.Frees != ref.Frees {
			log.Add("output depends on block placement: monitors only")
			res.Probes["stdtest_output_depends_on_placement"]++
			res.Nontrivial = h.Frees > 0
			res.Digest = log.Digest()
			sm.Log = log.Lines
			return res
		}
	}
	if gotOut != refOut || gotErr != refErr {
		return fail("output_differs", fmt.Sprintf("with the plain allocator the test printed %q and ended with %q; under %s it printed %q and ended with %q", clip(refOut), refErr, sm.Mode, clip(gotOut), gotErr))
	}
	if h.Mallocs != ref.Mallocs || h.Frees != ref.Frees {
		return fail("output_differs", fmt.Sprintf("the test performed %d allocations and %d releases with the plain allocator, %d and %d under %s: its control flow depends on what released / fresh memory holds", ref.Mallocs, ref.Frees, h.Mallocs, h.Frees, sm.Mode))
	}
	log.Add(fmt.Sprintf("ok mallocs=%d frees=%d reused=%d", h.Mallocs, h.Frees, h.Reused))
	res.States = append(res.States, fmt.Sprintf("std:%s/%s", test, sm.Mode))
	res.Nontrivial = h.Frees > 0
	res.Digest = log.Digest()
	sm.Log = log.Lines
	return res
}

func clip(s string) string {
	if len(s) > 300 {
		return s[:300] + "..."
	}
	return s
}

func (e *Engine11) Run(t *tape.Tape, keep bool) *sim.Result {
	res := sim.NewResult()
	var log tape.Log
	log.Keep = keep
	if t.Draw(6) == 5 {
		return e.stdRun(t, keep, res, &log)
	}
	d, err := e.driver()
	if err != nil {
		res.Trouble = err.Error()
		return res
	}
	max := 300
	if e.tier == "thorough" {
		max = 1500
	}
	ops := genOps(t, d.d, max)
	mode := allocsim.Mode(1 + t.Draw(int(allocsim.NModes)-1))
	sm := &sample{Kinds: d.d.Kinds, Mode: allocsim.ModeNames[mode], Ops: describe(d.d, ops, keep)}
	res.Sample = sm
	log.Add(fmt.Sprintf("driver=%d ops=%d mode=%s", d.key, len(ops), sm.Mode))
	fail := func(class, opname, detail string) *sim.Result {
		log.Add("VIOLATION " + class + " " + detail)
		res.Violation = &sim.Violation{Class: class, Signature: class + ":" + opname, Detail: fmt.Sprintf("allocator mode %s: %s", sm.Mode, detail)}
		res.Digest = log.Digest()
		sm.Log = log.Lines
		return res
	}
	opname := func(i int) string {
		if i >= 0 && i < len(ops) {
			return d.d.OpDesc[ops[i].op]
		}
		return "end"
	}
	// reference behaviour: the real allocator, nothing injected (still monitored)
	ref := execute(d, ops, allocsim.Plain, t)
	if ref.trouble != "" {
		res.Trouble = ref.trouble
		return res
	}
	if ref.monAt >= 0 {
		return fail(ref.host.VClass, opname(ref.monAt), fmt.Sprintf("[plain allocator] step %d (%s): %s", ref.monAt, opname(ref.monAt), ref.host.Violation))
	}
	got := execute(d, ops, mode, t)
	if got.trouble != "" {
		res.Trouble = got.trouble
		return res
	}
	h := got.host
	res.Steps += len(ops)
	res.Faults["poison_on_free"] += h.Frees
	res.Faults["dirty_fresh_bytes"] += int(h.DirtiedBytes)
	res.Faults["reuse_of_freed_block"] += h.Reused
	res.Faults["immediate_reuse"] += h.ImmediateReuseHits
	res.Faults["mode_"+allocsim.ModeNames[mode]]++
	res.Probes["heapalloc_zero_checks"] += h.ZeroChecks
	res.Probes["quarantine_checks"] += h.QuarChecks
	res.Probes["mallocs"] += h.Mallocs
	res.Probes["frees"] += h.Frees
	if got.monAt >= 0 {
		return fail(h.VClass, opname(got.monAt), fmt.Sprintf("step %d (%s): %s", got.monAt, opname(got.monAt), h.Violation))
	}
	// differential on the fault: same observables with and without it
	n := len(ref.results)
	if len(got.results) < n {
		n = len(got.results)
	}
	for i := 0; i < n; i++ {
		if ref.results[i] != got.results[i] {
			return fail("output_differs", opname(i), fmt.Sprintf("step %d (%s a=%d b=%d c=%d) returned %d with the plain allocator and %d under %s: the program's observable behaviour depends on what happens to released / fresh memory",
				i, opname(i), ops[i].a, ops[i].b, ops[i].c, ref.results[i], got.results[i], sm.Mode))
		}
	}
	if ref.trapAt != got.trapAt {
		i := got.trapAt
		if i < 0 || (ref.trapAt >= 0 && ref.trapAt < i) {
			i = ref.trapAt
		}
		return fail("output_differs", opname(i), fmt.Sprintf("plain allocator: trap at step %d (%s); %s: trap at step %d (%s)", ref.trapAt, ref.trapMsg, sm.Mode, got.trapAt, got.trapMsg))
	}
	if ref.trapAt >= 0 {
		// the same trap with and without the fault: not a memory-management question
		res.Trouble = fmt.Sprintf("generated driver traps identically in both modes at step %d (%s: %s): outside C11 (a miscompile or a generator slip)", ref.trapAt, opname(ref.trapAt), ref.trapMsg)
		return res
	}
	log.Add(fmt.Sprintf("ok mallocs=%d frees=%d reused=%d", h.Mallocs, h.Frees, h.Reused))
	res.States = append(res.States, fmt.Sprintf("d%d/%s", d.key%1000, sm.Mode))
	res.Nontrivial = h.Frees > 0
	res.Digest = log.Digest()
	sm.Log = log.Lines
	return res
}

// ---------------------------------------------------------------- C12

type Engine12 struct {
	base
	mapDrv map[int]*wab.Compiled
}

func New12() sim.Engine { return &Engine12{base: base{block: 48}} }

// mapLoop: the C12 conservation check on the C13 map drivers: a loop body of map
// operations (every key kind, including struct / string / interface keys that
// hold run-time strings) followed by "discard every map", iterated; the live
// heap must not grow.
func (e *Engine12) mapLoop(t *tape.Tape, keep bool, res *sim.Result, log *tape.Log) *sim.Result {
	id := int(tape.Mix(e.seed^0xC12, (e.run/(16*e.block))*16+e.run%16) % uint64(c13.NDrivers()))
	if e.mapDrv == nil {
		e.mapDrv = map[int]*wab.Compiled{}
	}
	c := e.mapDrv[id]
	src, desc := c13.DriverSource(id)
	if c == nil {
		var err error
		c, err = wab.Build("mapdriver.wa", src)
		if err != nil {
			res.Trouble = "map driver " + desc + ": " + err.Error()
			return res
		}
		e.mapDrv[id] = c
		e.built++
	}
	nb := t.Range(1, 30)
	pool := []int{4, 16, 200}[t.Draw(3)]
	type mop struct{ kind, slot, key, val int }
	body := make([]mop, nb)
	var desc2 []string
	names := []string{"put", "put", "del", "get", "get1", "rng"}
	for i := range body {
		body[i] = mop{t.Draw(len(names)), t.Draw(c13.Slots), t.Draw(pool), t.Draw(1000)}
		desc2 = append(desc2, fmt.Sprintf("%s(s%d,k%d,v%d)", names[body[i].kind], body[i].slot, body[i].key, body[i].val))
	}
	iters := []int{8, 64}[t.Draw(2)]
	sm := &sample{Kinds: []string{desc}, Mode: "plain (accounting only)", Ops: desc2, Note: fmt.Sprintf("map loop body of %d operations, then discard every map; %d iterations", nb, iters)}
	res.Sample = sm
	log.Add(fmt.Sprintf("mapdriver=%s body=%d iters=%d pool=%d", desc, nb, iters, pool))
	host := allocsim.New(allocsim.Plain, t, c.HeapBase, 0)
	in, err := c.Instantiate(host)
	if err != nil {
		res.Trouble = "instantiate: " + err.Error()
		return res
	}
	defer in.Close()
	if _, err := in.Call("setup"); err != nil {
		res.Trouble = "setup: " + firstLine(err.Error())
		return res
	}
	var refBlocks int
	var refBytes uint64
	for k := 1; k <= iters; k++ {
		for _, o := range body {
			var err error
			switch o.kind {
			case 0, 1:
				_, err = in.Call("put", uint64(o.slot), uint64(o.key), uint64(o.val))
			case 2:
				_, err = in.Call("del", uint64(o.slot), uint64(o.key))
			case 3:
				_, err = in.Call("get", uint64(o.slot), uint64(o.key))
			case 4:
				_, err = in.Call("get1", uint64(o.slot), uint64(o.key))
			default:
				_, err = in.Call("rng", uint64(o.slot))
			}
			if err != nil {
				res.Trouble = "map driver traps: " + firstLine(err.Error()) + " (outside C12)"
				return res
			}
			res.Steps++
		}
		if _, err := in.Call("dropall"); err != nil {
			res.Trouble = "dropall: " + firstLine(err.Error())
			return res
		}
		blocks, bytes := len(host.Live), host.LiveBytes
		if k == 2 {
			refBlocks, refBytes = blocks, bytes
		}
		if k > 2 && (blocks != refBlocks || bytes != refBytes) {
			log.Add("VIOLATION leak " + desc)
			res.Violation = &sim.Violation{Class: "leak", Signature: "leak:map loop:" + desc,
				Detail: fmt.Sprintf("%s: live heap after iteration 2: %d blocks / %d bytes; after iteration %d: %d blocks / %d bytes although every map is discarded at the end of each iteration. body: %s", desc, refBlocks, refBytes, k, blocks, bytes, strings.Join(desc2, "; "))}
			res.Digest = log.Digest()
			sm.Log = log.Lines
			return res
		}
	}
	res.Probes["map_loop_runs"]++
	res.Probes["mallocs"] += host.Mallocs
	res.Probes["frees"] += host.Frees
	res.States = append(res.States, "map/"+desc)
	res.Nontrivial = host.Frees > 0
	res.Digest = log.Digest()
	sm.Log = log.Lines
	return res
}

func (e *Engine12) Run(t *tape.Tape, keep bool) *sim.Result {
	res := sim.NewResult()
	var log tape.Log
	log.Keep = keep
	if t.Draw(4) == 3 {
		return e.mapLoop(t, keep, res, &log)
	}
	d, err := e.driver()
	if err != nil {
		res.Trouble = err.Error()
		return res
	}
	nb := t.Range(1, 40)
	focus := drawFocus(t, d.d)
	body := make([]op, nb)
	for i := range body {
		body[i] = drawOp(t, d.d, focus)
	}
	iters := []int{8, 64, 256}[t.Pick(5, 3, 2)]
	if e.tier == "thorough" && t.Draw(8) == 7 {
		iters = 1024
	}
	sm := &sample{Kinds: d.d.Kinds, Mode: "plain (accounting only)", Ops: describe(d.d, body, keep), Note: fmt.Sprintf("loop body of %d operations, then drop every slot; %d iterations", nb, iters)}
	res.Sample = sm
	log.Add(fmt.Sprintf("driver=%d body=%d iters=%d", d.key, nb, iters))
	fail := func(class, sig, detail string) *sim.Result {
		log.Add("VIOLATION " + class + " " + detail)
		res.Violation = &sim.Violation{Class: class, Signature: class + ":" + sig, Detail: detail}
		res.Digest = log.Digest()
		sm.Log = log.Lines
		return res
	}
	host := allocsim.New(allocsim.Plain, t, d.c.HeapBase, 0)
	in, err := d.c.Instantiate(host)
	if err != nil {
		res.Trouble = "instantiate: " + err.Error()
		return res
	}
	defer in.Close()
	if _, err := in.Call("reset"); err != nil {
		res.Trouble = "reset: " + firstLine(err.Error())
		return res
	}
	const warm = 2
	var refBlocks int
	var refBytes uint64
	var ext []uint32
	for k := 1; k <= iters; k++ {
		for i, o := range body {
			if _, err := in.Call("step", uint64(o.op), uint64(o.a), uint64(o.b), uint64(o.c)); err != nil {
				res.Trouble = fmt.Sprintf("generated driver traps in iteration %d at body op %d (%s): %s: outside C12", k, i, d.d.OpDesc[o.op], firstLine(err.Error()))
				return res
			}
			res.Steps++
		}
		if _, err := in.Call("reset"); err != nil {
			res.Trouble = "reset: " + firstLine(err.Error())
			return res
		}
		if host.Violation != "" {
			// C11's business; do not report under C12
			res.Trouble = "allocator monitor fired during a C12 run (C11 violation): " + host.Violation
			return res
		}
		blocks, bytes := len(host.Live), host.LiveBytes
		if k == warm {
			refBlocks, refBytes = blocks, bytes
		}
		if k > warm && (blocks != refBlocks || bytes != refBytes) {
			// name the op whose removal... the shrinker does that; report the numbers
			return fail("leak", leakSig(d.d, body), fmt.Sprintf("live heap after iteration %d: %d blocks / %d bytes; after iteration %d: %d blocks / %d bytes - every iteration ends in the same reachable state (all slots dropped), so discarded data is not being reclaimed. body: %s",
				warm, refBlocks, refBytes, k, blocks, bytes, strings.Join(describe(d.d, body, true), "; ")))
		}
		if k == 64 || k == 128 || k == 256 || k == 512 || k == 1024 {
			ext = append(ext, in.RealHeapPtr())
		}
	}
	res.Probes["mallocs"] += host.Mallocs
	res.Probes["frees"] += host.Frees
	res.Probes["iterations"] += iters
	for i := 0; i+2 < len(ext); i++ {
		if ext[i] < ext[i+1] && ext[i+1] < ext[i+2] {
			return fail("heap_growth", leakSig(d.d, body), fmt.Sprintf("the real allocator's heap extent keeps growing although the live set is constant: heap_ptr %v at iterations 64,128,256,...", ext))
		}
	}
	if len(ext) >= 2 && ext[len(ext)-1] > ext[0] {
		res.Probes["heap_extent_still_settling"]++
	}
	log.Add(fmt.Sprintf("ok live=%d/%d mallocs=%d frees=%d ext=%v", refBlocks, refBytes, host.Mallocs, host.Frees, ext))
	res.States = append(res.States, fmt.Sprintf("d%d/i%d/b%d", d.key%1000, iters, nb/8))
	res.Nontrivial = host.Frees > 0 && iters > warm
	res.Digest = log.Digest()
	sm.Log = log.Lines
	return res
}

// leakSig names the (minimised) body by its operation kinds.
func leakSig(d *wagen.Driver, body []op) string {
	var s []string
	for i, o := range body {
		if i >= 3 {
			s = append(s, "...")
			break
		}
		s = append(s, d.OpDesc[o.op])
	}
	return strings.Join(s, "+")
}

// DebugModes (developer aid) replays a driver history under every allocator
// mode and prints each step's result and the monitors' verdicts.
func DebugModes(seed, run uint64, tier string, rec []uint32) {
	e := &Engine11{base: base{block: 96}}
	e.Setup(tier)
	e.SetRun(seed, run)
	t := tape.NewReplay(rec)
	if t.Draw(6) == 5 {
		fmt.Println("not a driver history")
		return
	}
	d, err := e.driver()
	if err != nil {
		fmt.Println(err)
		return
	}
	max := 300
	if tier == "thorough" {
		max = 1500
	}
	ops := genOps(t, d.d, max)
	os.WriteFile("/tmp/c11-driver.wa", []byte(d.d.Source), 0o644)
	for m := allocsim.Plain; m < allocsim.NModes; m++ {
		tr := execute(d, ops, m, tape.NewReplay(rec))
		fmt.Printf("%-14s results=%v trap=%d %q mon=%d %s %q trouble=%q\n", allocsim.ModeNames[m], tr.results, tr.trapAt, tr.trapMsg, tr.monAt, tr.host.VClass, tr.host.Violation, tr.trouble)
	}
	for i, o := range ops {
		fmt.Printf("  %2d op%d %s (a=%d b=%d c=%d)\n", i, o.op, d.d.OpDesc[o.op], o.a, o.b, o.c)
	}
}
