// Package c27: compilation determinism. The order in which every `range` over
// a Go map inside the compiler yields its keys is decided by the simulator
// (simrewrite map pass + verifsim.Keys); any two orders are legal Go
// executions, so the WAT text and wasm binary must be identical under all of
// them, across repeats in one process and across processes.
package c27

import (
	"crypto/sha256"
	"encoding/hex"
	"encoding/json"
	"fmt"
	"os"
	"path/filepath"
	"sort"
	"strings"

	"verif/harness/sim"
	"verif/harness/tape"
	"verif/harness/wagen"
	"wa-lang.org/wa/verifbridge/compb"
	"wa-lang.org/wa/verifsim"
)

type prog struct {
	name string
	path string // file or directory; "" = generated source
	src  string
}

type site struct {
	ID  int    `json:"id"`
	Pos string `json:"pos"`
	Key string `json:"key_type"`
	Fn  string `json:"func"`
}

type Engine struct {
	tier     string
	corpus   []prog
	sites    []site
	base     map[string]string // prog|cfg -> hash of baseline
	skipped  []string
	tmp      string
	tmp2     string
	history  []string // "progIndex|target|opt" of every compilation made by this process, in order
	seenSite map[int]bool
	multi    map[int]bool
}

func New() sim.Engine {
	return &Engine{base: map[string]string{}, seenSite: map[int]bool{}, multi: map[int]bool{}}
}

var targets = []string{"", "unknown", "wasm4", "arduino"}

func (e *Engine) Setup(tier string) error {
	e.tier = tier
	if p := os.Getenv("VERIF_RW_DIR"); p != "" {
		b, err := os.ReadFile(filepath.Join(p, "sites.json"))
		if err == nil {
			json.Unmarshal(b, &e.sites)
		}
	}
	root := "/repo/waroot"
	if d := os.Getenv("VERIF_REPO"); d != "" {
		root = d + "/waroot"
	}
	var cands []string
	for _, g := range []string{"hello.wa", "hello.wz", "examples/*.wa", "examples/misc/*.wa", "tests/*.wa", "examples/*/wa.mod"} {
		m, _ := filepath.Glob(filepath.Join(root, g))
		sort.Strings(m)
		for _, x := range m {
			if strings.HasSuffix(x, "wa.mod") {
				x = filepath.Dir(x)
			}
			cands = append(cands, x)
		}
	}
	for _, c := range cands {
		rel, _ := filepath.Rel(root, c)
		e.corpus = append(e.corpus, prog{name: rel, path: c})
	}
	// a multi-package feature project (written to a temp directory): same-named
	// packages in different directories, embedded types from two packages with
	// same-named unexported methods, cross-package initialisation
	if dir, err := writeFeatureProject(); err == nil {
		e.corpus = append(e.corpus, prog{name: "feature-project", path: dir})
		e.tmp = dir
	}
	// a single-file program with embedded sibling files (written to a temp
	// directory): several #wa:embed constants in one file, two of the file names
	// differing only in letter case
	if dir, err := writeEmbedProgram(); err == nil {
		e.corpus = append(e.corpus, prog{name: "feature-embed", path: filepath.Join(dir, "embed.wa")})
		e.tmp2 = dir
	}
	// hand-written feature programs: language shapes the examples do not contain
	for i, src := range featurePrograms {
		e.corpus = append(e.corpus, prog{name: fmt.Sprintf("feature-%d", i), src: src})
	}
	// the generated map drivers of C13: one per key kind (interface comparison, type tables)
	for i := 0; i < 4; i++ {
		e.corpus = append(e.corpus, prog{name: fmt.Sprintf("feature-apple-%d", i), src: appleProgram})
	}
	// generated drivers are programs too (many types, closures, maps, interfaces)
	for i := 0; i < 4; i++ {
		d := wagen.Generate(tape.NewGen(0xC27, uint64(i)))
		e.corpus = append(e.corpus, prog{name: fmt.Sprintf("generated-driver-%d", i), src: d.Source})
	}
	if len(e.corpus) < 20 {
		return fmt.Errorf("corpus too small: %d programs found under %s", len(e.corpus), root)
	}
	return nil
}

func (e *Engine) Strides() []int    { return nil }
func (e *Engine) ShrinkBudget() int { return 250 }

func (e *Engine) Extra() map[string]any {
	if e.tmp2 != "" {
		os.RemoveAll(e.tmp2)
	}
	if e.tmp != "" {
		os.RemoveAll(e.tmp)
	}
	x := map[string]any{}
	for k, v := range e.base {
		x["must_agree:"+k] = v
	}
	var seen, multi []int
	for s := range e.seenSite {
		seen = append(seen, s)
	}
	for s := range e.multi {
		multi = append(multi, s)
	}
	sort.Ints(seen)
	sort.Ints(multi)
	var unv []string
	for _, st := range e.sites {
		if !e.multi[st.ID] {
			unv = append(unv, st.Pos+" ("+st.Fn+")")
		}
	}
	x["range_sites_never_with_2plus_keys_by_this_worker"] = unv
	x["range_sites_total"] = len(e.sites)
	x["range_sites_visited_by_this_worker"] = len(seen)
	x["range_sites_with_2plus_keys_by_this_worker"] = len(multi)
	x["programs_skipped_do_not_compile"] = e.skipped
	x["nonreplayable_keys"] = verifsim.MapStats.NonReplayable
	return x
}

type schedule struct {
	mode  []int // per site: 0 identity 1 reverse 2 rotate 3 swap-first-two 4 shuffle
	seed  uint64
	count map[int]int
}

func (s *schedule) perm(site, n int) []int {
	m := 0
	if site < len(s.mode) {
		m = s.mode[site]
	}
	if m == 0 {
		return nil
	}
	s.count[site]++
	p := make([]int, n)
	for i := range p {
		p[i] = i
	}
	switch m {
	case 1:
		for i := range p {
			p[i] = n - 1 - i
		}
	case 2:
		for i := range p {
			p[i] = (i + 1) % n
		}
	case 3:
		p[0], p[1] = 1, 0
	case 4:
		x := tape.Mix(s.seed, uint64(site)*1000003+uint64(s.count[site]))
		for i := n - 1; i > 0; i-- {
			x = x*6364136223846793005 + 1442695040888963407
			j := int((x >> 33) % uint64(i+1))
			p[i], p[j] = p[j], p[i]
		}
	}
	return p
}

type sample struct {
	Program  string   `json:"program"`
	Config   string   `json:"config"`
	Schedule string   `json:"schedule"`
	Sites    []string `json:"perturbed_sites,omitempty"`
	Log      []string `json:"log,omitempty"`
}

func (s *sample) LogLines() []string { return s.Log }

func hash(b []byte) string { h := sha256.Sum256(b); return hex.EncodeToString(h[:12]) }

// ReplayPrelude re-executes the compilations a worker process had made before
// the failing run (canonical map order), so that a fresh process is in the same
// state when the tape is replayed.
func (e *Engine) ReplayPrelude(extra any) {
	list, _ := extra.([]any)
	for _, x := range list {
		s, _ := x.(string)
		var pi int
		var target string
		var opt bool
		if n, _ := fmt.Sscanf(strings.ReplaceAll(s, "|", " "), "%d %q %t", &pi, &target, &opt); n == 3 && pi < len(e.corpus) {
			w, m, err := e.compile(e.corpus[pi], target, opt, nil)
			// the first compilation of a (program, configuration) in a process is its baseline
			key := e.corpus[pi].name + "|" + fmt.Sprintf("target=%q optimize=%v", target, opt)
			if _, ok := e.base[key]; !ok {
				if err != nil {
					e.base[key] = "error"
				} else {
					e.base[key] = w + "/" + m
				}
			}
		}
	}
	e.history = nil
}

func (e *Engine) compile(p prog, target string, opt bool, sch *schedule) (string, string, error) {
	for i := range e.corpus {
		if e.corpus[i].name == p.name {
			if len(e.history) < 400 {
				e.history = append(e.history, fmt.Sprintf("%d|%q|%t", i, target, opt))
			}
			break
		}
	}
	verifsim.ResetSerials()
	if sch == nil {
		verifsim.MapPerm = nil
	} else {
		verifsim.MapPerm = sch.perm
	}
	defer func() { verifsim.MapPerm = nil }()
	var wat, wasm []byte
	var err error
	if p.path != "" {
		wat, wasm, err = compb.Compile(p.path, target, opt)
	} else {
		wat, wasm, err = compb.CompileSource(p.name+".wa", p.src, target, opt)
	}
	if err != nil {
		return "", "", err
	}
	for s, n := range verifsim.MapStats.SiteSeen {
		if n > 0 {
			e.seenSite[s] = true
		}
	}
	for s, n := range verifsim.MapStats.SiteMulti {
		if n > 0 {
			e.multi[s] = true
		}
	}
	return hash(wat), hash(wasm), nil
}

func (e *Engine) Run(t *tape.Tape, keep bool) *sim.Result {
	res := sim.NewResult()
	var log tape.Log
	log.Keep = keep
	pi := t.Draw(len(e.corpus))
	// one run in four takes one of the hand-written feature programs / the feature
	// project: they hold the shapes that the examples lack (two draws, always consumed)
	featPick, featIdx := t.Draw(4), t.Draw(64)
	if featPick == 3 {
		var feats []int
		for i, c := range e.corpus {
			if strings.HasPrefix(c.name, "feature-") {
				feats = append(feats, i)
			}
		}
		if len(feats) > 0 {
			pi = feats[featIdx%len(feats)]
		}
	}
	p := e.corpus[pi]
	target := targets[t.Pick(5, 3, 1, 1)]
	opt := t.Draw(3) == 2
	kind := t.Pick(3, 2, 2) // 0 per-site subset (all-zero tape = canonical order), 1 reverse everywhere, 2 shuffle everywhere
	sseed := uint64(t.Draw(1 << 30))
	nsites := 160 // fixed tape layout, independent of the number of sites found
	if len(e.sites) > nsites {
		nsites = len(e.sites)
	}
	sch := &schedule{mode: make([]int, nsites), seed: sseed, count: map[int]int{}}
	density := 2 + t.Draw(6)
	for i := range sch.mode {
		d := t.Draw(density) // fixed draws per site
		m := 1 + t.Draw(4)
		switch kind {
		case 1:
			sch.mode[i] = 1
		case 2:
			sch.mode[i] = 4
		default:
			if d == density-1 {
				sch.mode[i] = m
			}
		}
	}
	cfg := fmt.Sprintf("target=%q optimize=%v", target, opt)
	sm := &sample{Program: p.name, Config: cfg, Schedule: []string{"per-site subset", "reverse every map range", "shuffle every map range"}[kind]}
	res.Sample = sm
	log.Add(fmt.Sprintf("prog=%s %s kind=%d", p.name, cfg, kind))
	key := p.name + "|" + cfg
	histBefore := append([]string(nil), e.history...)
	fail := func(class, sig, detail string) *sim.Result {
		log.Add("VIOLATION " + class + " " + sig) // (hashes stay out of the digest: they depend on the process history)
		res.Violation = &sim.Violation{Class: class, Signature: class + ":" + sig, Detail: detail}
		if class == "history_dependent" {
			res.Prelude = histBefore
		}
		res.Digest = log.Digest()
		sm.Log = log.Lines
		return res
	}
	// history probe (tape-drawn, so it replays in a fresh process): compile P, then
	// another program Q, then P again, all with the canonical map order: state left
	// behind by Q (or by the first P) must not reach the second P's output
	probe := t.Draw(3) == 2
	qi := t.Draw(len(e.corpus))
	if probe {
		q := e.corpus[qi]
		w1, m1, err1 := e.compile(p, target, opt, nil)
		if err1 == nil {
			e.compile(q, target, opt, nil)
			w2, m2, err2 := e.compile(p, target, opt, nil)
			res.Steps += 3
			res.Probes["history_probes"]++
			if err2 != nil || w1 != w2 || m1 != m2 {
				return fail("history_dependent", p.name+"~"+q.name, fmt.Sprintf("%s %s compiled, then %s, then %s again (same map order throughout): first wat/wasm %s/%s, second %s/%s (err=%v) - state left over from an earlier compilation reaches the output", p.name, cfg, q.name, p.name, w1, m1, w2, m2, err2))
			}
		}
	}
	b0, ok := e.base[key]
	if !ok {
		w1, m1, err := e.compile(p, target, opt, nil)
		if err != nil && strings.HasPrefix(p.name, "feature-") && target == "" {
			// the harness's own programs must compile for the default target: a silent
			// skip here would drop exactly the shapes they were written for
			res.Trouble = fmt.Sprintf("harness program %s does not compile for the default target: %v", p.name, err)
			return res
		}
		if err != nil {
			// not a compilable program for this target: nothing to compare
			e.base[key] = "error"
			e.skipped = append(e.skipped, key)
			res.Probes["program_does_not_compile_for_target"]++
			res.Digest = log.Digest()
			return res
		}
		res.Steps++
		// (b) repeat in the same process: state leaking from one compile into the next
		w2, m2, err := e.compile(p, target, opt, nil)
		res.Steps++
		if err != nil || w1 != w2 || m1 != m2 {
			return fail("repeat_differs", p.name, fmt.Sprintf("%s %s: compiling twice in one process with the same map order gives wat %s / wasm %s, then wat %s / wasm %s (err=%v)", p.name, cfg, w1, m1, w2, m2, err))
		}
		b0 = w1 + "/" + m1
		e.base[key] = b0
		res.Probes["baseline_compiles"]++
	}
	if b0 == "error" {
		res.Probes["program_does_not_compile_for_target"]++
		res.Digest = log.Digest()
		return res
	}
	before := verifsim.MapStats.Perturbed
	w, m, err := e.compile(p, target, opt, sch)
	res.Steps++
	pert := int(verifsim.MapStats.Perturbed - before)
	res.Faults["map_ranges_perturbed"] += pert
	var names []string
	var ids []int
	for s := range sch.count {
		ids = append(ids, s)
	}
	sort.Ints(ids)
	for _, s := range ids {
		n := fmt.Sprintf("site %d", s)
		if s < len(e.sites) {
			n = fmt.Sprintf("%s (%s, key %s)", e.sites[s].Pos, e.sites[s].Fn, e.sites[s].Key)
		}
		names = append(names, n)
	}
	sm.Sites = names
	if len(names) > 12 && !keep {
		sm.Sites = names[:12]
	}
	log.Add(fmt.Sprintf("perturbed occurrences=%d sites=%d", pert, len(ids)))
	if err != nil {
		return fail("order_dependent", p.name, fmt.Sprintf("%s %s compiles with the canonical map order but fails under a permuted one: %v; perturbed range sites: %s", p.name, cfg, err, strings.Join(names, "; ")))
	}
	if w+"/"+m != b0 {
		// order or history? compile once more with the canonical order, now
		if w3, m3, err3 := e.compile(p, target, opt, nil); err3 == nil && w3+"/"+m3 != b0 {
			res.Steps++
			return fail("history_dependent", p.name, fmt.Sprintf("%s %s: the first compilation in this process gave wat/wasm %s; the same compilation with the same (canonical) map order gives %s/%s after other programs were compiled in between - state left over from earlier compilations reaches the output", p.name, cfg, b0, w3, m3))
		}
		sig := p.name
		if len(names) <= 3 {
			sig = strings.Join(names, "+")
		}
		return fail("order_dependent", sig, fmt.Sprintf("%s %s: canonical map order gives wat/wasm %s, the permuted order gives %s/%s - the output depends on Go map iteration order at: %s", p.name, cfg, b0, w, m, strings.Join(names, "; ")))
	}
	res.Nontrivial = pert > 0
	res.States = append(res.States, key)
	res.Digest = log.Digest()
	sm.Log = log.Lines
	return res
}

// featurePrograms cover shapes that no example has: an interface whose only
// member is an embedded imported composite interface, interfaces mixing
// embedded and explicit methods, package-level variables with initialisation
// dependencies (types.initOrder), labelled loops (types.labels), map literals.
var featurePrograms = []string{
	`import "io"
import "strings"
import "errors"

type Stream :interface {
	io.ReadWriteSeeker
}

type Both :interface {
	io.Reader
	io.Writer
	Name() => string
}

type Buf :struct {
	pos: i64
	tag: string
}

func Buf.Read(p: []byte) => (n: int, err: error) { return len(p), nil }
func Buf.Write(p: []byte) => (n: int, err: error) { return len(p), nil }
func Buf.Seek(offset: i64, whence: int) => (i64, error) {
	this.pos = offset
	return this.pos, nil
}
func Buf.Name() => string { return this.tag }

// package-level variables with initialisation dependencies (init order)
global gA = gB + gC
global gB = f1() + gD
global gC = len(gS) + gD
global gD = 3
global gS = strings.Repeat("x", gD)
global gErr = errors.New("e" + gS)
global gTable = map[string]int{"one": gD, "two": gB, "three": gA}

func f1() => int { return gD * 2 }

func use(s: Stream, b: Both) => int {
	n, _ := s.Write([]byte("abc"))
	m, _ := b.Read(make([]byte, 2))
	s.Seek(7, 0)
	return n + m + len(b.Name())
}

func labeled(n: int) => int {
	t := 0
outer:
	for i := 0; i < n; i++ {
	inner:
		for j := 0; j < n; j++ {
			switch {
			case j == 2:
				continue outer
			case i == 3:
				break outer
			case j > 5:
				break inner
			}
			t += i * j
		}
	}
	return t
}

func main {
	b := &Buf{tag: "buf"}
	println(use(b, b), gA, gB, gC, gErr.Error(), gTable["three"], labeled(6))
}
`,
	`
import "sort"
import "strconv"
import "bytes"

type Named :interface {
	Name() => string
}

type Sized :interface {
	Named
	Size() => int
}

type A :struct{ n: int }
type B :struct{ s: string }

func A.Name() => string { return "A" + strconv.Itoa(this.n) }
func A.Size() => int { return this.n }
func B.Name() => string { return "B" + this.s }
func B.Size() => int { return len(this.s) }

type byName :[]Sized

func byName.Len() => int { return len(*this) }
func byName.Less(i, j: int) => bool { return (*this)[i].Name() < (*this)[j].Name() }
func byName.Swap(i, j: int) { (*this)[i], (*this)[j] = (*this)[j], (*this)[i] }

global registry = map[string]Sized{"a": &A{1}, "b": &B{"bb"}, "c": &A{3}}
global order = []string{"c", "a", "b"}
global total = sum()

func sum() => int {
	t := 0
	for _, k := range order {
		t += registry[k].Size()
	}
	return t
}

func main {
	xs: byName
	for _, k := range order {
		xs = append(xs, registry[k])
	}
	sort.Sort(&xs)
	buf: bytes.Buffer
	for _, x := range xs {
		buf.WriteString(x.Name())
	}
	println(buf.String(), total)
}
`,
	// package-level initialisation whose dependency graph runs through function
	// cycles (length 2 and 3), self recursion, method values and closures; several
	// independent variables declared after the dependent ones; initialisers with
	// visible side effects
	`global total = sumTo(4) + weight
global label = describe(2)
global weight = 7
global scale = 3
global table = build(3)
global last = note("last")
global depth = ping(5)
global first = note("first")

type Acc :struct {
	n: int
}

func Acc.Add(v: int) => int {
	this.n += v * scale
	return this.n
}

global acc = Acc{n: 1}
global bump = acc.Add

func sumTo(n: int) => int {
	if n <= 0 {
		return scale
	}
	return n + sumDown(n-1)
}

func sumDown(n: int) => int {
	if n <= 0 {
		return weight
	}
	return n + sumTo(n-1)
}

func ping(n: int) => int {
	if n <= 0 {
		return len(label)
	}
	return pong(n - 1)
}

func pong(n: int) => int {
	if n <= 0 {
		return weight
	}
	return pang(n - 1)
}

func pang(n: int) => int {
	if n <= 0 {
		return scale
	}
	return ping(n - 1)
}

func describe(n: int) => string {
	if n == 0 {
		return "d"
	}
	return describe(n-1) + "x"
}

func build(n: int) => []int {
	r := []int{}
	f := func(i: int) => int { return i*scale + weight }
	for i := 0; i < n; i++ {
		r = append(r, f(i))
	}
	return r
}

func note(s: string) => string {
	println("init", s)
	return s
}

func main {
	println(total, label, weight, scale, len(table), last, depth, first, bump(2), acc.n)
}
`,
	// #wa:generic alternatives, #wa:operator, #wa:export with a custom name, closures
	// in a table, method values, several named types over one underlying type
	`#wa:generic joinInts joinF
func join(a: string, b: string) => string {
	return a + "+" + b
}

func joinInts(a: string, b: []int) => string {
	return a + "#" + string(rune('0'+len(b)))
}

func joinF(a: string, f: f64) => string {
	if f > 1 {
		return a + ">1"
	}
	return a + "<=1"
}

#wa:operator + Vec_add
#wa:operator - Vec_sub
type Vec :struct {
	x, y: int
	tag:  string
}

func Vec_add(a, b: Vec) => Vec { return Vec{a.x + b.x, a.y + b.y, a.tag + b.tag} }
func Vec_sub(a, b: Vec) => Vec { return Vec{a.x - b.x, a.y - b.y, a.tag} }

#wa:generic ScaleF
func Vec.Scale(k: int) => *Vec {
	this.x *= k
	this.y *= k
	return this
}

func Vec.ScaleF(k: f64) => *Vec {
	this.x = int(f64(this.x) * k)
	this.y = int(f64(this.y) * k)
	return this
}

type Acc2 :struct {
	n: i64
}

#wa:generic AddF AddI AddS
func Acc2.Add(b: bool) {
	if b {
		this.n++
	}
}

func Acc2.AddF(f: f64) { this.n += i64(f * 2) }
func Acc2.AddI(i: i64) { this.n += i * 3 }
func Acc2.AddS(s: string) { this.n += i64(len(s)) }

type Celsius :f64
type Kelvin :f64
type Miles :int
type Km :int

func Celsius.K() => Kelvin { return Kelvin(*this + 273.15) }
func Miles.Km() => Km { return Km(*this * 8 / 5) }

#wa:export exported_sum
func sum3(a, b, c: i32) => i32 {
	return a + b + c
}

global ops = []func(a, b: int) => int{
	func(a, b: int) => int { return a + b },
	func(a, b: int) => int { return a * b },
	func(a, b: int) => int { return a - b },
}

func main {
	println(join("a", "b"), join("a", []int{1, 2}), join("a", 2.5))
	va, vb, vc := Vec{1, 2, "p"}, Vec{3, 4, "q"}, Vec{1, 1, "r"}
	vs := va + vb
	v := vs - vc
	v.Scale(3).Scale(0.5)
	println(v.x, v.y, v.tag)
	c: Celsius = 20
	m: Miles = 5
	var boxes: []interface{} = []interface{}{c, c.K(), m, m.Km(), v}
	n := 0
	for _, b := range boxes {
		switch b.(type) {
		case Celsius:
			n += 1
		case Kelvin:
			n += 10
		case Miles:
			n += 100
		case Km:
			n += 1000
		case Vec:
			n += 10000
		}
	}
	f := v.Scale
	f(2)
	acc := 0
	for i, op := range ops {
		acc += op(i+2, 3)
	}
	a2 := &Acc2{}
	a2.Add(1) // an untyped constant: more than one alternative accepts it, the first listed wins
	a2.Add(true)
	a2.Add("xy")
	a2.Add(2.5)
	println(n, v.x, acc, sum3(1, 2, 3), a2.n)
}
`,
}

const appleProgram = `
import "apple"
import "math/rand"

func main {
	r := rand.New(rand.NewSource(7))
	println(apple.Apple(), r.Intn(100))
}
`

var featureProject = map[string]string{
	"wa.mod": "name = \"featproj\"\npkgpath = \"featproj\"\ntarget = \"js\"\n",
	"src/main.wa": `
import "featproj/alpha"
import "featproj/beta"
import "featproj/geom/util"
import "featproj/text/util" => tutil

type Both :struct {
	alpha.Machine
	beta.Machine2
	tag: string
}

type Twin :struct {
	alpha.Logger
	beta.Journal
}

global start = util.Scale(alpha.Seed) + len(tutil.Pad("x", beta.Width))

func main {
	b := &Both{tag: "t"}
	b.Machine.Run()
	b.Machine2.Run()
	t := &Twin{}
	t.Logger.Log()
	t.Journal.Write()
	println(start, b.tag, util.Scale(3), tutil.Pad("ab", 4))
}
`,
	"src/alpha/alpha.wa": `
global Seed = 7

type Machine :struct {
	N: int
}

func Machine.Run() {
	this.reset()
	this.step()
	println("alpha.Machine", this.N)
}

func Machine.reset() { this.N = 1 }
func Machine.step() { this.N += 2 }

type Logger :struct {
	K: int
}

func Logger.Log() {
	this.reset()
	println("alpha.Logger", this.K)
}

func Logger.reset() { this.K = 100 }
`,
	"src/beta/beta.wa": `
global Width = 5

type Machine2 :struct {
	M: int
}

func Machine2.Run() {
	this.reset()
	this.step()
	println("beta.Machine2", this.M)
}

func Machine2.reset() { this.M = 10 }
func Machine2.step() { this.M += 20 }

type Journal :struct {
	J: int
}

func Journal.Write() {
	this.reset()
	println("beta.Journal", this.J)
}

func Journal.reset() { this.J = 200 }
`,
	"src/geom/util/util.wa": `
func Scale(x: int) => int { return x * 3 }
`,
	"src/text/util/util.wa": `
func Pad(s: string, n: int) => string {
	for len(s) < n {
		s += "."
	}
	return s
}
`,
}

func writeEmbedProgram() (string, error) {
	dir, err := os.MkdirTemp(sim.ScratchParent(), "verif-c27embed.")
	if err != nil {
		return "", err
	}
	files := map[string]string{
		"banner.txt": "lower-case banner",
		"Banner.txt": "UPPER-CASE BANNER",
		"notes.md":   "# notes\n",
		"data.bin":   "\x00\x01\x02\xff binary",
		"embed.wa": `#wa:embed banner.txt
const lower: string

#wa:embed Banner.txt
const upper: string

#wa:embed notes.md
const notes: string

#wa:embed data.bin
const blob: string

func main {
	println(lower)
	println(upper)
	println(len(notes), len(blob))
}
`,
	}
	for name, src := range files {
		if err := os.WriteFile(filepath.Join(dir, name), []byte(src), 0o644); err != nil {
			return "", err
		}
	}
	return dir, nil
}

func writeFeatureProject() (string, error) {
	dir, err := os.MkdirTemp(sim.ScratchParent(), "verif-c27proj.")
	if err != nil {
		return "", err
	}
	for name, src := range featureProject {
		p := filepath.Join(dir, name)
		os.MkdirAll(filepath.Dir(p), 0o755)
		if err := os.WriteFile(p, []byte(src), 0o644); err != nil {
			return "", err
		}
	}
	return dir, nil
}
