// Package c26: debug-adapter protocol messages through Content-Length framing
// over a simulated byte stream.
//
// Real: dap.WriteProtocolMessage, bufio.Reader, dap.ReadProtocolMessage
// (ReadBaseMessage, DecodeProtocolMessage, schematypes constructor tables).
// Simulated: the byte stream under bufio (short reads, empty-read bursts, cut).
package c26

import (
	"bufio"
	"bytes"
	"encoding/json"
	"fmt"
	"math"
	"reflect"
	"regexp"
	"sort"
	"strconv"
	"strings"

	"verif/harness/sim"
	"verif/harness/tape"
	"wa-lang.org/wa/verifbridge/dapb"
)

type ctor struct {
	kind string // request | response | event | errorresponse
	key  string
	mk   func() dapb.Message
}

type Engine struct {
	tier  string
	ctors []ctor
	used  map[string]bool
}

func New() sim.Engine { return &Engine{used: map[string]bool{}} }

func (e *Engine) Setup(tier string) error {
	e.tier = tier
	req, resp, ev := dapb.Ctors()
	add := func(kind string, m map[string]func() dapb.Message) {
		keys := make([]string, 0, len(m))
		for k := range m {
			keys = append(keys, k)
		}
		sort.Strings(keys)
		for _, k := range keys {
			e.ctors = append(e.ctors, ctor{kind, k, m[k]})
		}
	}
	add("request", req)
	add("response", resp)
	add("event", ev)
	e.ctors = append(e.ctors, ctor{"errorresponse", "launch", func() dapb.Message { return &dapb.ErrorResponse{} }})
	if len(e.ctors) < 50 {
		return fmt.Errorf("only %d registered message constructors found", len(e.ctors))
	}
	return nil
}

func (e *Engine) Strides() []int { return nil }

func (e *Engine) Extra() map[string]any {
	return map[string]any{"registered_message_types": len(e.ctors), "message_types_generated_by_this_worker": len(e.used)}
}

var strPieces = []string{"", "a", "x y", "\r\n\r\n", "Content-Length: 5\r\n\r\n{}", "\"", "\\", "é", "世界", "😀", "\u0000", "<&>", "\n", "\r", " ", "/path/to/file.wa", "0",
	"\u2028", "\u2029", "\u007f", "\u0080", "\U0010FFFF", "\uFFFD", "\t", "\b\f", "</script>", "\\u0041", "{\"a\":1}", "Content-Length: 0\r\n\r\n",
	// every printable ASCII punctuation character, and the ones that are special to formatters and templates
	"!\"#$%&'()*+,-./:;<=>?@[\\]^_`{|}~", "%", "%%", "100% done", "%d %s %v", "${x}", "{{.}}", "\x1b[0m",
	// text that looks like JSON escapes (a literal backslash followed by an escape body), as in forwarded JSON output
	"\\u003c", "\\u003e", "\\u0026", "\\u2028", "\\n", "\\\"", "\\\\", "{\"html\":\"\\u003cb\\u003e\"}"}

func genString(t *tape.Tape) string {
	n := t.Pick(3, 4, 2, 1)
	s := ""
	for i := 0; i < n; i++ {
		s += strPieces[t.Draw(len(strPieces))]
	}
	if n == 3 && t.Draw(4) == 3 {
		for i := t.Range(50, 400); i > 0; i-- {
			s += string(rune('a' + i%26))
		}
		if t.Draw(6) == 5 {
			// longer than the reader's buffer, non-ASCII inside
			for i := t.Range(3000, 6000); i > 0; i-- {
				s += string(rune(0x4e00 + i%64))
			}
		}
	}
	return s
}

var intEdges = []int{0, 1, -1, 7, 255, 65536, 1 << 31, -(1 << 31), math.MaxInt64, math.MinInt64, 1<<53 + 1}

func genJSONValue(t *tape.Tape, depth int) interface{} {
	k := t.Draw(7)
	if depth <= 0 && k >= 5 {
		k = 1
	}
	switch k {
	case 0:
		return nil
	case 1:
		return genString(t)
	case 2:
		return float64(t.Draw(2000) - 1000)
	case 3:
		return t.Draw(2) == 1
	case 4:
		return float64(t.Draw(1000)) / 8
	case 5:
		n := t.Draw(3)
		a := make([]interface{}, n)
		for i := range a {
			a[i] = genJSONValue(t, depth-1)
		}
		return a
	default:
		n := t.Draw(3)
		m := map[string]interface{}{}
		for i := 0; i < n; i++ {
			m[genString(t)] = genJSONValue(t, depth-1)
		}
		return m
	}
}

var rawMessageType = reflect.TypeOf(json.RawMessage(nil))

func fill(t *tape.Tape, v reflect.Value, depth int) {
	switch v.Kind() {
	case reflect.String:
		v.SetString(genString(t))
	case reflect.Int, reflect.Int64, reflect.Int32:
		if t.Draw(3) == 0 {
			v.SetInt(int64(t.Draw(100)))
		} else {
			x := int64(intEdges[t.Draw(len(intEdges))])
			if v.OverflowInt(x) {
				x = 1
			}
			v.SetInt(x)
		}
	case reflect.Bool:
		v.SetBool(t.Draw(2) == 1)
	case reflect.Float64, reflect.Float32:
		v.SetFloat(float64(t.Draw(1000)) / 8)
	case reflect.Struct:
		for i := 0; i < v.NumField(); i++ {
			if v.Type().Field(i).PkgPath != "" {
				continue
			}
			fill(t, v.Field(i), depth-1)
		}
	case reflect.Ptr:
		if depth > 0 && t.Draw(3) != 0 {
			p := reflect.New(v.Type().Elem())
			fill(t, p.Elem(), depth-1)
			v.Set(p)
		}
	case reflect.Slice:
		if v.Type() == rawMessageType {
			if t.Draw(4) != 0 {
				b, _ := json.Marshal(genJSONValue(t, 2))
				v.SetBytes(b)
			}
			return
		}
		k := t.Draw(4) // nil, empty, 1, 2-3
		if depth <= 0 && k >= 2 {
			k = 1
		}
		switch k {
		case 0:
		case 1:
			v.Set(reflect.MakeSlice(v.Type(), 0, 0))
		default:
			n := 1
			if k == 3 {
				n = 2 + t.Draw(2)
			}
			s := reflect.MakeSlice(v.Type(), n, n)
			for i := 0; i < n; i++ {
				fill(t, s.Index(i), depth-1)
			}
			v.Set(s)
		}
	case reflect.Map:
		if t.Draw(3) == 0 {
			return
		}
		m := reflect.MakeMap(v.Type())
		n := t.Draw(3)
		for i := 0; i < n; i++ {
			k := reflect.New(v.Type().Key()).Elem()
			fill(t, k, 0)
			e := reflect.New(v.Type().Elem()).Elem()
			fill(t, e, depth-1)
			m.SetMapIndex(k, e)
		}
		v.Set(m)
	case reflect.Interface:
		x := genJSONValue(t, 2)
		if x != nil {
			v.Set(reflect.ValueOf(x))
		}
	}
}

func (e *Engine) genMessage(t *tape.Tape) (dapb.Message, string) {
	c := e.ctors[t.Draw(len(e.ctors))]
	e.used[c.kind+":"+c.key] = true
	m := c.mk()
	v := reflect.ValueOf(m).Elem()
	fill(t, v, 4)
	// A constructor may pre-set protocol defaults (initialize: pathFormat "path"):
	// an omitted field then *means* the default, so the generator never leaves an
	// omitempty field with a non-zero default at its zero value.
	keepDefaults(v, reflect.ValueOf(c.mk()).Elem())
	set := func(path []string, val interface{}) {
		f := v
		for _, p := range path {
			f = f.FieldByName(p)
			if !f.IsValid() {
				panic(sim.HarnessPanic(fmt.Sprintf("message type %T has no field %v", m, path)))
			}
		}
		f.Set(reflect.ValueOf(val))
	}
	switch c.kind {
	case "request":
		set([]string{"Request", "ProtocolMessage", "Type"}, "request")
		set([]string{"Request", "Command"}, c.key)
	case "response":
		set([]string{"Response", "ProtocolMessage", "Type"}, "response")
		set([]string{"Response", "Command"}, c.key)
		set([]string{"Response", "Success"}, true)
	case "errorresponse":
		set([]string{"Response", "ProtocolMessage", "Type"}, "response")
		set([]string{"Response", "Success"}, false)
	case "event":
		set([]string{"Event", "ProtocolMessage", "Type"}, "event")
		set([]string{"Event", "Event"}, c.key)
	}
	return m, c.kind + ":" + c.key
}

func keepDefaults(v, d reflect.Value) {
	for i := 0; i < v.NumField(); i++ {
		f := v.Type().Field(i)
		if f.PkgPath != "" {
			continue
		}
		if v.Field(i).Kind() == reflect.Struct {
			keepDefaults(v.Field(i), d.Field(i))
			continue
		}
		switch v.Field(i).Kind() {
		case reflect.String, reflect.Bool, reflect.Int, reflect.Int64:
			if strings.Contains(f.Tag.Get("json"), "omitempty") && v.Field(i).IsZero() && !d.Field(i).IsZero() {
				v.Field(i).Set(d.Field(i))
			}
		}
	}
}

// tableSlips checks every constructor table entry against the naming
// convention of the schema (key "goto" in the request table constructs a
// *GotoRequest): an independent reading of which type a key stands for.
func (e *Engine) tableSlips() []string {
	var bad []string
	suffix := map[string]string{"request": "Request", "response": "Response", "event": "Event"}
	for _, c := range e.ctors {
		sfx, ok := suffix[c.kind]
		if !ok {
			continue
		}
		want := strings.ToUpper(c.key[:1]) + c.key[1:] + sfx
		got := reflect.TypeOf(c.mk()).Elem().Name()
		if got != want {
			bad = append(bad, fmt.Sprintf("%s table: key %q constructs %s, expected %s", c.kind, c.key, got, want))
		}
	}
	return bad
}

type sample struct {
	Messages []string `json:"messages"`
	WireLen  int      `json:"wire_len"`
	Fault    string   `json:"fault"`
	Log      []string `json:"log,omitempty"`
}

func (s *sample) LogLines() []string { return s.Log }

type outcome struct{ class, detail string }

// readBack reads messages until error; cut is the cut offset or -1.
func readBack(st *sim.Stream, msgs []dapb.Message, jsons [][]byte, ends []int, cut int) (oc *outcome) {
	defer func() {
		if r := recover(); r != nil {
			if r == sim.ErrLivelock {
				oc = &outcome{"not_delivered", "reader spins on an exhausted stream"}
				return
			}
			oc = &outcome{"panic", fmt.Sprint(r)}
		}
	}()
	br := bufio.NewReader(st)
	complete := len(msgs)
	if cut >= 0 {
		complete = 0
		for _, e := range ends {
			if e <= cut {
				complete++
			}
		}
	}
	for i := 0; ; i++ {
		m, err := dapb.ReadProtocolMessage(br)
		if err != nil {
			if i < complete {
				return &outcome{"read_error", fmt.Sprintf("message %d of %d completely delivered messages: %v", i, complete, err)}
			}
			return nil
		}
		if i >= complete {
			if cut >= 0 {
				return &outcome{"phantom_message", fmt.Sprintf("stream cut at %d inside message %d, but a message %T was returned", cut, i, m)}
			}
			return &outcome{"phantom_message", fmt.Sprintf("message %d returned but only %d written", i, complete)}
		}
		if reflect.TypeOf(m) != reflect.TypeOf(msgs[i]) {
			return &outcome{"type_mismatch", fmt.Sprintf("message %d: decoded %T, written %T", i, m, msgs[i])}
		}
		b, err := json.Marshal(m)
		if err != nil {
			return &outcome{"content_mismatch", fmt.Sprintf("message %d: decoded message does not marshal: %v", i, err)}
		}
		if !bytes.Equal(b, jsons[i]) {
			return &outcome{"content_mismatch", fmt.Sprintf("message %d (%T): decoded %s, written %s", i, m, clip(b), clip(jsons[i]))}
		}
		if cut < 0 && i == complete-1 {
			return nil // never ask for more than was written on an un-cut stream
		}
	}
}

func clip(b []byte) string {
	if len(b) > 600 {
		return string(b[:600]) + "..."
	}
	return string(b)
}

func (e *Engine) Run(t *tape.Tape, keep bool) *sim.Result {
	res := sim.NewResult()
	var log tape.Log
	log.Keep = keep
	if bad := e.tableSlips(); len(bad) > 0 {
		res.Violation = &sim.Violation{Class: "ctor_table", Signature: "ctor_table:" + bad[0], Detail: strings.Join(bad, "; ")}
		res.Digest = "ctor_table"
		return res
	}
	if t.Draw(24) == 0 {
		return e.runSizeEdge(t, res, &log)
	}
	n := t.Pick(5, 3, 2, 1) + 1
	if n == 4 {
		n = t.Range(4, 8)
	}
	var msgs []dapb.Message
	var jsons [][]byte
	var ends []int
	var names []string
	wire := &bytes.Buffer{}
	for i := 0; i < n; i++ {
		m, name := e.genMessage(t)
		j, err := json.Marshal(m)
		if err != nil {
			res.Trouble = "generated message does not marshal: " + err.Error()
			return res
		}
		if err := dapb.WriteProtocolMessage(wire, m); err != nil {
			res.Trouble = "WriteProtocolMessage on bytes.Buffer: " + err.Error()
			return res
		}
		msgs = append(msgs, m)
		jsons = append(jsons, j)
		ends = append(ends, wire.Len())
		names = append(names, name)
	}
	w := wire.Bytes()
	sm := &sample{WireLen: len(w)}
	for i := range msgs {
		sm.Messages = append(sm.Messages, names[i]+" "+clip(jsons[i]))
	}
	res.Sample = sm
	log.Add(fmt.Sprintf("msgs=%v wire=%d %x", names, len(w), w))
	fail := func(oc *outcome, fault, sig string) *sim.Result {
		sm.Fault = fault
		log.Add("VIOLATION " + oc.class + " " + fault + " " + oc.detail)
		res.Violation = &sim.Violation{Class: oc.class, Signature: sig + ":" + oc.class, Detail: fault + ": " + oc.detail}
		res.Digest = log.Digest()
		sm.Log = log.Lines
		return res
	}
	mk := func() *sim.Stream {
		st := sim.NewStream(nil)
		st.Buf = w
		st.SpinLimit = 200
		return st
	}
	// 1. fault-free
	if oc := readBack(mk(), msgs, jsons, ends, -1); oc != nil {
		return fail(oc, "no fault", "nofault:"+names[0])
	}
	res.Steps++
	// 2. bounded chunk sizes: every read returns at most k bytes
	for _, k := range []int{1, 2, 3, 7} {
		st := mk()
		st.MaxChunk = k
		oc := readBack(st, msgs, jsons, ends, -1)
		res.Steps++
		res.Faults["short"] += st.Reads
		if oc != nil {
			return fail(oc, fmt.Sprintf("every read returns at most %d byte(s)", k), fmt.Sprintf("maxchunk%d", k))
		}
	}
	limit := 1500
	if e.tier == "thorough" {
		limit = 4096
	}
	// 3. complete single-split and single-cut enumeration
	enumerated := 0
	if len(w) <= limit {
		for pos := 1; pos < len(w); pos++ {
			st := mk()
			st.Bounds = map[int]bool{pos: true}
			oc := readBack(st, msgs, jsons, ends, -1)
			res.Steps++
			enumerated++
			res.Faults["split"] += st.Fired["split"]
			if oc != nil {
				return fail(oc, fmt.Sprintf("stream delivered in two reads split at offset %d", pos), "split")
			}
		}
		for pos := 0; pos < len(w); pos++ {
			st := mk()
			st.CutAt = pos
			oc := readBack(st, msgs, jsons, ends, pos)
			res.Steps++
			enumerated++
			res.Faults["cut"]++
			if oc != nil {
				return fail(oc, fmt.Sprintf("stream cut for good at offset %d", pos), "cut")
			}
		}
		res.Probes["streams_fully_enumerated"]++
	} else {
		res.Probes["streams_too_long_for_enumeration"]++
	}
	res.Probes["single_fault_executions"] += enumerated
	// 4. tape-drawn schedules: short reads, empty-read bursts, optional cut
	reps := 1 + t.Draw(3)
	for i := 0; i < reps; i++ {
		st := mk()
		st.T = t
		st.ShortNum, st.ShortDen = 1, 1+t.Range(1, 4)
		st.StallNum, st.StallDen = 1, 2+t.Draw(10)
		st.StallKinds = []int{sim.StallNil}
		st.MaxConsecStall = 1 + t.Draw(60) // below bufio's 100-empty-read limit
		st.MaxChunk = []int{0, 0, 1, 5, 64}[t.Draw(5)]
		cut := -1
		if t.Draw(3) == 2 {
			cut = t.Draw(len(w))
			st.CutAt = cut
			res.Faults["cut"]++
		}
		oc := readBack(st, msgs, jsons, ends, cut)
		res.Steps++
		nf := 0
		for k, v := range st.Fired {
			res.Faults[k] += v
			nf += v
		}
		log.Add(fmt.Sprintf("multi %d reads=%d faults=%d cut=%d", i, st.Reads, nf, cut))
		if oc != nil {
			return fail(oc, fmt.Sprintf("tape-drawn schedule %v cut=%d", st.Fired, cut), "multi")
		}
	}
	if len(w) > 4096 {
		res.Probes["stream_larger_than_bufio_buffer"]++
	}
	res.Nontrivial = true
	res.Digest = log.Digest()
	sm.Log = log.Lines
	return res
}

var overLimit = regexp.MustCompile(`over ([0-9]+) bytes`)

// runSizeEdge: one output event whose JSON body is exactly 2^k-1, 2^k or 2^k+1
// bytes long (4 KiB .. 8 MiB), followed by a small one. The reader may refuse a
// body with an error that names a limit ("content length over N bytes") only
// if the body really is longer than that N - the limit is taken from the
// reader's own words, not from its source; every accepted body reads back
// equal, and so does the message after it.
func (e *Engine) runSizeEdge(t *tape.Tape, res *sim.Result, log *tape.Log) *sim.Result {
	var mk func() dapb.Message
	for _, c := range e.ctors {
		if c.kind == "event" && c.key == "output" {
			mk = c.mk
			e.used[c.kind+":"+c.key] = true
		}
	}
	if mk == nil {
		res.Trouble = "no constructor for the output event"
		return res
	}
	build := func(pad int) (dapb.Message, []byte) {
		m := mk()
		v := reflect.ValueOf(m).Elem()
		v.FieldByName("Event").FieldByName("ProtocolMessage").FieldByName("Type").SetString("event")
		v.FieldByName("Event").FieldByName("Event").SetString("output")
		v.FieldByName("Body").FieldByName("Category").SetString("stdout")
		v.FieldByName("Body").FieldByName("Output").SetString(strings.Repeat("a", pad))
		j, err := json.Marshal(m)
		if err != nil {
			panic(sim.HarnessPanic("size-edge output event does not marshal: " + err.Error()))
		}
		return m, j
	}
	k := []int{12, 16, 20, 21, 22, 23}[t.Draw(6)]
	target := 1<<k + t.Draw(3) - 1
	_, j0 := build(0)
	big, jbig := build(target - len(j0))
	small, jsmall := build(1 + t.Draw(40))
	if len(jbig) != target {
		res.Trouble = fmt.Sprintf("size-edge body is %d bytes, wanted %d", len(jbig), target)
		return res
	}
	wire := &bytes.Buffer{}
	for _, m := range []dapb.Message{big, small} {
		if err := dapb.WriteProtocolMessage(wire, m); err != nil {
			res.Trouble = "WriteProtocolMessage on bytes.Buffer: " + err.Error()
			return res
		}
	}
	w := wire.Bytes()
	sm := &sample{WireLen: len(w), Messages: []string{fmt.Sprintf("event:output with a body of %d bytes", target), "event:output " + clip(jsmall)}}
	res.Sample = sm
	log.Add(fmt.Sprintf("sizeedge body=%d wire=%d", target, len(w)))
	read := func(st *sim.Stream) (oc *outcome) {
		defer func() {
			if r := recover(); r != nil {
				if r == sim.ErrLivelock {
					oc = &outcome{"not_delivered", "reader spins on an exhausted stream"}
					return
				}
				oc = &outcome{"panic", fmt.Sprint(r)}
			}
		}()
		br := bufio.NewReader(st)
		for i, want := range [][]byte{jbig, jsmall} {
			m, err := dapb.ReadProtocolMessage(br)
			if err != nil {
				if mm := overLimit.FindStringSubmatch(err.Error()); mm != nil && i == 0 {
					if n, _ := strconv.Atoi(mm[1]); target > n {
						res.Probes["size_edge_truthful_refusal"]++
						return nil
					}
				}
				return &outcome{"read_error", fmt.Sprintf("message %d (body of %d bytes) of 2 completely delivered messages: %v", i, len(want), err)}
			}
			b, err := json.Marshal(m)
			if err != nil || !bytes.Equal(b, want) {
				return &outcome{"content_mismatch", fmt.Sprintf("message %d (body of %d bytes): decoded %s", i, len(want), clip(b))}
			}
		}
		res.Probes["size_edge_read_back"]++
		return nil
	}
	for i := 0; i < 3; i++ {
		st := sim.NewStream(nil)
		st.Buf = w
		st.SpinLimit = 200
		fault := "no fault"
		switch i {
		case 1:
			pos := 1 + t.Draw(len(w)-1)
			st.Bounds = map[int]bool{pos: true}
			fault = fmt.Sprintf("stream delivered in two reads split at offset %d", pos)
		case 2:
			st.MaxChunk = 1 + t.Draw(8192)
			fault = fmt.Sprintf("every read returns at most %d byte(s)", st.MaxChunk)
		}
		oc := read(st)
		res.Steps++
		if i == 2 {
			res.Faults["short"] += st.Reads
		} else if i == 1 {
			res.Faults["split"] += st.Fired["split"]
		}
		log.Add(fmt.Sprintf("sizeedge %d reads=%d", i, st.Reads))
		if oc != nil {
			sm.Fault = fault
			log.Add("VIOLATION " + oc.class + " " + fault + " " + oc.detail)
			res.Violation = &sim.Violation{Class: oc.class, Signature: "sizeedge:" + oc.class, Detail: fault + ": " + oc.detail}
			res.Digest = log.Digest()
			sm.Log = log.Lines
			return res
		}
	}
	res.Probes["size_edge_runs"]++
	res.Nontrivial = true
	res.Digest = log.Digest()
	sm.Log = log.Lines
	return res
}
