// Package c21: the language server's document synchronisation, simulated
// whole: real LSPServer.Run with its handler chain, jsonrpc2 header stream and
// connection, fakenet connection and feeder goroutines; simulated editor,
// stdin/stdout byte streams and goroutine scheduler.
package c21

import (
	"encoding/json"
	"fmt"
	"io"
	"strings"
	"testing"
	"unicode/utf8"

	"verif/harness/sim"
	"verif/harness/tape"
	"wa-lang.org/wa/verifbridge/lspb"
	"wa-lang.org/wa/verifsim"
)

// T is the *testing.T the synctest bubbles hang off (set by the worker main).
var T *testing.T

type Engine struct{ tier string }

func New() sim.Engine { return &Engine{} }

func (e *Engine) Setup(tier string) error { e.tier = tier; return nil }
func (e *Engine) Strides() []int          { return nil }
func (e *Engine) ShrinkBudget() int       { return 600 }

// ---- simulated stdin: blocks (durably, on a channel) when empty -------------

type inPipe struct {
	buf    []byte
	closed bool
	wake   chan struct{}
	t      *tape.Tape
	shortD int
	fired  map[string]int
	reads  int
}

func (p *inPipe) Read(b []byte) (int, error) {
	for len(p.buf) == 0 {
		if p.closed {
			return 0, io.EOF
		}
		<-p.wake
		// woken by the client's deliver/Close: park at once, so that the rest of
		// this function (shared buffer, tape) runs under the scheduler's control
		verifsim.Yield(-11)
	}
	p.reads++
	n := len(b)
	if n > len(p.buf) {
		n = len(p.buf)
	}
	if p.shortD > 0 && n > 1 {
		fire := p.t.Chance(1, p.shortD)
		cut := p.t.Draw(n)
		if fire {
			m := n - cut
			if m < 1 {
				m = 1
			}
			if m < n {
				p.fired["short_read"]++
			}
			n = m
		}
	}
	copy(b, p.buf[:n])
	p.buf = p.buf[n:]
	return n, nil
}

func (p *inPipe) deliver(b []byte) {
	p.buf = append(p.buf, b...)
	select {
	case p.wake <- struct{}{}:
	default:
	}
}

func (p *inPipe) Close() error {
	p.closed = true
	select {
	case p.wake <- struct{}{}:
	default:
	}
	return nil
}

type outPipe struct{ n int }

func (o *outPipe) Write(b []byte) (int, error) { o.n += len(b); return len(b), nil }
func (o *outPipe) Close() error                { return nil }

// ---- editor model --------------------------------------------------------------

var pieces = []string{"a", "b", " ", "x := 1", "é", "世界", "😀", "𝄞", "\n", "\r\n", "\n\n", "func f() {", "}", "\t", "// 注释", "\"s\"", "0",
	"\uFFFD", "\uFEFF", "\u2028", "\u00A0", "e\u0301", "\u0000", "\U0010FFFF", "\u07FF\u0800", "\uFFFF",
	// the first and last code points of every UTF-8 length and of the UTF-16 surrogate-pair range
	"\u007F", "\u0080", "\uD7FF", "\uE000", "\uFFFE", "\U00010000", "\U00010001", "\U0001FFFF", "\U00020000", "\U0010FFFE", "a\U00010000b",
	"!\"#$%&'()*+,-./:;<=>?@[\\]^_`{|}~", "%d%s", "\\n", "\x7f"}

func genText(t *tape.Tape, max int) string {
	n := t.Draw(max + 1)
	var sb strings.Builder
	for i := 0; i < n; i++ {
		sb.WriteString(pieces[t.Draw(len(pieces))])
	}
	return sb.String()
}

// boundaries are the byte offsets an editor can address: rune starts and the
// end, except the position between \r and \n.
func boundaries(s string) []int {
	var b []int
	for i := range s {
		if i > 0 && s[i] == '\n' && s[i-1] == '\r' {
			continue
		}
		b = append(b, i)
	}
	return append(b, len(s))
}

// position converts a byte offset into an LSP position: line breaks are \n and
// \r\n (lone \r is never generated); character counts UTF-16 code units.
func position(s string, off int) (line, char int) {
	ls := 0
	for i := 0; i < off; i++ {
		if s[i] == '\n' {
			line++
			ls = i + 1
		}
	}
	for _, r := range s[ls:off] {
		if r >= 0x10000 {
			char += 2
		} else {
			char++
		}
	}
	return
}

func lineCount(s string) int { return strings.Count(s, "\n") + 1 }

type doc struct {
	uri     string
	path    string
	text    string
	open    bool
	version int
}

type rng struct {
	SL, SC, EL, EC int
}

type change struct {
	r    *rng
	text string
	rl   int // > 0: also send the (deprecated, but sent by VS Code) rangeLength: UTF-16 units replaced
}

func frame(v any) []byte {
	b, _ := json.Marshal(v)
	// every third message also carries the optional Content-Type header of the base protocol
	frameCount++
	if frameCount%3 == 0 {
		return []byte(fmt.Sprintf("Content-Length: %d\r\nContent-Type: application/vscode-jsonrpc; charset=utf-8\r\n\r\n%s", len(b), b))
	}
	return []byte(fmt.Sprintf("Content-Length: %d\r\n\r\n%s", len(b), b))
}

var frameCount int

func notif(method string, params any) []byte {
	return frame(map[string]any{"jsonrpc": "2.0", "method": method, "params": params})
}

func request(id int, method string, params any) []byte {
	return frame(map[string]any{"jsonrpc": "2.0", "id": id, "method": method, "params": params})
}

func changeJSON(cs []change) []any {
	var out []any
	for _, c := range cs {
		if c.r == nil {
			out = append(out, map[string]any{"text": c.text})
			continue
		}
		m := map[string]any{
			"range": map[string]any{
				"start": map[string]any{"line": c.r.SL, "character": c.r.SC},
				"end":   map[string]any{"line": c.r.EL, "character": c.r.EC},
			},
			"text": c.text,
		}
		if c.rl > 0 {
			m["rangeLength"] = c.rl
		}
		out = append(out, m)
	}
	return out
}

type sample struct {
	Script []string `json:"script"`
	Log    []string `json:"log,omitempty"`
}

func (s *sample) LogLines() []string { return s.Log }

type outcome struct{ class, sig, detail string }

func (e *Engine) Run(t *tape.Tape, keep bool) *sim.Result {
	frameCount = 0
	res := sim.NewResult()
	var log tape.Log
	log.Keep = keep
	sm := &sample{}
	res.Sample = sm
	note := func(s string) {
		log.Add(s)
		if keep || len(sm.Script) < 60 {
			sm.Script = append(sm.Script, s)
		}
	}
	// per-run knobs (swarm)
	swDen := []int{1, 3, 8, 32}[t.Draw(4)]
	shortD := []int{0, 2, 4}[t.Draw(3)]
	nsteps := 0
	switch t.Pick(3, 4, 3) {
	case 0:
		nsteps = t.Range(1, 4)
	case 1:
		nsteps = t.Range(1, 12)
	default:
		nsteps = t.Range(1, 40)
	}
	// per-run workload knobs: how often the session drains between messages, and
	// whether requests and their cancellation are frequent (an editor that keeps
	// typing while stale hovers are cancelled)
	drainDen := []int{3, 1, 8}[t.Draw(3)]
	cancelHeavy := t.Draw(3) == 2
	fired := map[string]int{}
	var oc *outcome
	sched := &verifsim.Sched{MaxDecisions: 400000}
	sched.Choose = func(n, cur int) int {
		stay := t.Draw(swDen) != swDen-1 || swDen == 1 && false
		k := t.Draw(n)
		if cur >= 0 && stay && swDen > 1 {
			return cur
		}
		return k
	}
	sched.Trace = func(dec, task int, name string, site int) {
		log.Add(fmt.Sprintf("d%d t%d s%d", dec, task, site))
	}
	maxInflight := 0
	runReturned := false
	main := func() {
		in := &inPipe{wake: make(chan struct{}, 1), t: t, shortD: shortD, fired: fired}
		out := &outPipe{}
		srv := lspb.NewServer(in, out)
		verifsim.Go("LSPServer.Run", func() {
			srv.Run()
			runReturned = true
		})
		docs := []*doc{
			{uri: "file:///w/a.wa", path: "/w/a.wa"},
			{uri: "file:///w/b.wz", path: "/w/b.wz"},
			{uri: "file:///w/dir/c.wa", path: "/w/dir/c.wa"},
			// a URI that needs unescaping (space, non-ASCII): the slow path of DocumentURI.Path
			{uri: "file:///w/my%20dir/%E4%B8%96.wa", path: "/w/my dir/世.wa"},
		}
		nextID := 1
		// send delivers a message in tape-chosen pieces, yielding between pieces so
		// that the server runs on a half-delivered message. cutAt>=0: the connection
		// dies after that many bytes of this message.
		send := func(msg []byte, cutAt int) {
			pos := 0
			for pos < len(msg) {
				n := len(msg) - pos
				if t.Draw(3) != 0 {
					n = 1 + t.Draw(n)
					if n < len(msg)-pos {
						fired["split_delivery"]++
						if pos+n < 20 {
							fired["split_inside_header"]++
						}
					}
				}
				if cutAt >= 0 && pos+n > cutAt {
					n = cutAt - pos
				}
				if n > 0 {
					in.deliver(msg[pos : pos+n])
					verifsim.Yield(-10) // always park right after waking the reader
				}
				pos += n
				if cutAt >= 0 && pos >= cutAt {
					fired["cut_mid_message"]++
					in.Close()
					verifsim.Yield(-12)
					return
				}
			}
		}
		check := func(when, lastKind string) *outcome {
			verifsim.Drain()
			for _, d := range docs {
				if !d.open {
					continue
				}
				// a server that keeps no entry for the document holds the empty text
				got, _ := srv.VerifText(d.path)
				if got != d.text {
					suffix := d.uri[strings.LastIndex(d.uri, "."):]
					return &outcome{"text_mismatch", suffix + ":" + lastKind, fmt.Sprintf("%s: server copy of %s is %q, the editor holds %q", when, d.uri, clip(got), clip(d.text))}
				}
			}
			res.Probes["sync_checks"]++
			return nil
		}
		lastKind := "none"
		send(request(nextID, "initialize", map[string]any{"processId": nil, "rootUri": nil, "capabilities": map[string]any{}}), -1)
		nextID++
		send(notif("initialized", map[string]any{}), -1)
		for step := 0; step < nsteps && oc == nil; step++ {
			kind := t.Draw(100)
			if cancelHeavy && kind >= 60 && kind < 88 {
				kind = 88 + (kind-60)/4 // 88..94: requests and cancels instead of some incremental / invalid edits
			}
			di := t.Draw(len(docs))
			d := docs[di]
			cut := t.Draw(40) == 39 && step > 0
			var msg []byte
			var apply func() // applied to the model iff the message is completely delivered
			switch {
			case !d.open || kind < 8:
				txt := genText(t, 30)
				ver := d.version + 1
				msg = notif("textDocument/didOpen", map[string]any{"textDocument": map[string]any{"uri": d.uri, "languageId": "wa", "version": ver, "text": txt}})
				apply = func() { d.open, d.text, d.version = true, txt, ver }
				lastKind = "didOpen"
				note(fmt.Sprintf("didOpen %s %q", d.uri, clip(txt)))
			case kind < 20:
				txt := genText(t, 30)
				ver := d.version + 1
				msg = notif("textDocument/didChange", map[string]any{"textDocument": map[string]any{"uri": d.uri, "version": ver}, "contentChanges": changeJSON([]change{{nil, txt, 0}})})
				apply = func() { d.text, d.version = txt, ver }
				lastKind = "didChange_full"
				note(fmt.Sprintf("didChange(full) %s %q", d.uri, clip(txt)))
			case kind < 80:
				// incremental: 1..4 ordered changes, ranges computed from the model's own text
				nch := 1 + t.Pick(6, 2, 1, 1)
				cur := d.text
				var cs []change
				var desc []string
				for k := 0; k < nch; k++ {
					bs := boundaries(cur)
					i := t.Draw(len(bs))
					j := i + t.Pick(3, 3, 2, 1)*t.Draw(3)
					if t.Draw(8) == 7 {
						j = len(bs) - 1
					}
					if j >= len(bs) {
						j = len(bs) - 1
					}
					so, eo := bs[i], bs[j]
					sl, sc := position(cur, so)
					el, ec := position(cur, eo)
					ins := genText(t, 5)
					rl := 0
					if t.Draw(2) == 1 {
						// as VS Code does: the length of the replaced span in UTF-16 code units
						for _, r := range cur[so:eo] {
							rl++
							if r >= 0x10000 {
								rl++
							}
						}
						if rl > 0 {
							res.Probes["change_with_range_length"]++
						}
					}
					cs = append(cs, change{&rng{sl, sc, el, ec}, ins, rl})
					if eo == len(cur) {
						res.Probes["edit_at_eof"]++
					}
					if strings.ContainsAny(cur[so:eo], "😀𝄞") || strings.ContainsAny(cur[:so], "😀𝄞") {
						res.Probes["edit_after_or_over_surrogate_pair"]++
					}
					if strings.Contains(cur[so:eo], "\r\n") {
						res.Probes["edit_spanning_crlf"]++
					}
					cur = cur[:so] + ins + cur[eo:]
					desc = append(desc, fmt.Sprintf("[%d:%d-%d:%d]->%q", sl, sc, el, ec, clip(ins)))
				}
				if nch > 1 {
					res.Probes["multi_change_notification"]++
				}
				ver := d.version + 1
				final := cur
				msg = notif("textDocument/didChange", map[string]any{"textDocument": map[string]any{"uri": d.uri, "version": ver}, "contentChanges": changeJSON(cs)})
				apply = func() { d.text, d.version = final, ver }
				lastKind = "didChange_incremental"
				note(fmt.Sprintf("didChange %s %s", d.uri, strings.Join(desc, " ")))
			case kind < 88:
				// invalid edit from a buggy client: must be rejected, text unchanged.
				// Only unambiguous cases: a line beyond the document, or end before start.
				lc := lineCount(d.text)
				var cs []change
				if t.Draw(2) == 0 {
					cs = []change{{&rng{lc + 1 + t.Draw(3), 0, lc + 4, 0}, "ZZ", 0}}
				} else {
					bs := boundaries(d.text)
					if len(bs) < 2 {
						cs = []change{{&rng{lc + 2, 0, lc + 2, 0}, "ZZ", 0}}
					} else {
						sl, sc := position(d.text, bs[len(bs)-1])
						el, ec := position(d.text, bs[0])
						cs = []change{{&rng{sl, sc, el, ec}, "ZZ", 0}}
					}
				}
				if t.Draw(3) == 2 {
					// a valid first change followed by the invalid one: nothing may be applied
					cs = append([]change{{&rng{0, 0, 0, 0}, "Q", 0}}, cs...)
					res.Probes["invalid_after_valid_change"]++
				}
				msg = notif("textDocument/didChange", map[string]any{"textDocument": map[string]any{"uri": d.uri, "version": d.version + 1}, "contentChanges": changeJSON(cs)})
				apply = func() {}
				lastKind = "didChange_invalid"
				fired["invalid_edit"]++
				note(fmt.Sprintf("didChange(invalid) %s", d.uri))
			case kind < 93:
				msg = request(nextID, "textDocument/foldingRange", map[string]any{"textDocument": map[string]any{"uri": d.uri}})
				nextID++
				apply = func() {}
				note("request foldingRange")
			case kind < 96:
				msg = notif("$/cancelRequest", map[string]any{"id": nextID - 1})
				apply = func() {}
				note("cancelRequest")
			case kind < 98:
				msg = notif("textDocument/didSave", map[string]any{"textDocument": map[string]any{"uri": d.uri}})
				apply = func() {}
				note("didSave")
			default:
				// the editor closes the document: it holds no text for it until the next
				// didOpen (which must then install exactly the text it carries)
				msg = notif("textDocument/didClose", map[string]any{"textDocument": map[string]any{"uri": d.uri}})
				apply = func() { d.open = false }
				res.Probes["did_close"]++
				note("didClose " + d.uri)
			}
			if cut {
				cutAt := t.Draw(len(msg))
				note(fmt.Sprintf("connection cut after %d of %d bytes of the message", cutAt, len(msg)))
				send(msg, cutAt)
				oc = check("after the connection was cut inside a message (the half-delivered notification must not be applied)", lastKind+"_cut")
				if oc == nil {
					verifsim.Drain()
					if !runReturned {
						oc = &outcome{"run_not_returned", "cut", "the connection is closed but LSPServer.Run has not returned"}
					}
				}
				return
			}
			send(msg, -1)
			apply()
			if t.Draw(drainDen) != 0 { // next message follows without a drain
				res.Probes["no_check_between_messages"]++
				continue
			}
			oc = check(fmt.Sprintf("after message %d (%s)", step, lastKind), lastKind)
		}
		if oc == nil {
			oc = check("at the end of the session", lastKind)
		}
		in.Close()
		verifsim.Yield(-12)
		verifsim.Drain()
		if oc == nil && !runReturned {
			oc = &outcome{"run_not_returned", "eof", "stdin reached EOF but LSPServer.Run has not returned"}
		}
	}
	verifsim.Run(T, sched, main)
	_ = maxInflight
	res.Steps = sched.Decisions
	for k, v := range fired {
		res.Faults[k] += v
	}
	res.Faults["context_switches"] += sched.Switches
	res.Probes["adopted_goroutines"] += sched.Adopted
	log.Add(fmt.Sprintf("decisions=%d switches=%d", sched.Decisions, sched.Switches))
	if len(sched.Panics) > 0 && oc == nil {
		oc = &outcome{"panic", "server", strings.Join(sched.Panics, "; ")}
	}
	if sched.Deadlock != "" && oc == nil {
		oc = &outcome{"deadlock", "sched", sched.Deadlock}
	}
	if oc != nil {
		log.Add("VIOLATION " + oc.class + " " + oc.detail)
		res.Violation = &sim.Violation{Class: oc.class, Signature: oc.class + ":" + oc.sig, Detail: oc.detail}
	}
	res.Nontrivial = sched.Switches > 0
	res.States = append(res.States, fmt.Sprintf("sw%d/sh%d/n%d", swDen, shortD, nsteps/4))
	res.Digest = log.Digest()
	sm.Log = log.Lines
	return res
}

func clip(s string) string {
	if len(s) > 80 {
		i := 80
		for i > 0 && !utf8.RuneStart(s[i]) {
			i--
		}
		return s[:i] + "..."
	}
	return s
}
