package c13

import (
	"fmt"
	"strings"
)

// Key and value kinds of the map drivers. Each driver is one Wa program with
// S map slots of type map[K]V and exported operations; keys and values are
// addressed by small integers (key index i in [0,pool), value number v) that
// the Wa code turns into K and V values and back.

type keyKind struct {
	name   string
	typ    string
	decls  string
	mk     string // Wa expression building the key from int i
	idx    string // Wa statements computing "r" = index back from key k
	needsP bool   // needs the pointer pool
}

var keyKinds = []keyKind{
	{name: "int", typ: "int", mk: "i*7 - 300", idx: "r = (k + 300) / 7"},
	{name: "i64", typ: "i64", mk: "i64(i)*1000003 - 5000000000", idx: "r = int((k + 5000000000) / 1000003)"},
	{name: "u8", typ: "u8", mk: "u8(i % 256)", idx: "r = int(k)"},
	// keys spread over the whole range of the type (differences overflow the type)
	{name: "int_spread", typ: "int", mk: "int(u32(i) * 2654435761)", idx: "r = int(u32(k) * 244002641)"},
	{name: "u32_spread", typ: "u32", mk: "u32(i) * 2654435761", idx: "r = int(k * 244002641)"},
	{name: "i64_spread", typ: "i64", mk: "i64(u64(i) * 11400714819323198485)", idx: "r = int(u64(k) * 17428512612931826493)"},
	{name: "u64_spread", typ: "u64", mk: "u64(i) * 11400714819323198485", idx: "r = int(k * 17428512612931826493)"},
	{name: "u16", typ: "u16", mk: "u16(i * 31)", idx: "r = int(k) / 31"},
	{name: "f64_wide", typ: "f64", mk: "(f64(i) - 1000) * 1.0e305", idx: "r = int(k/1.0e305 + 1000.5)"},
	{name: "struct_spread", typ: "SP", mk: `SP{a: int(u32(i) * 2654435761), b: i64(u64(i) * 11400714819323198485)}`, idx: "r = int(u32(k.a) * 244002641)",
		decls: "type SP :struct {\n\ta: int\n\tb: i64\n}\n"},
	{name: "string", typ: "string", mk: `"k" + itoa(i*13)`, idx: "r = atoi(k[1:]) / 13"},
	// strings that are not valid UTF-8 are strings too
	{name: "string_bytes", typ: "string", mk: "string([]byte{byte(0xf0 + i%16), byte(i / 16), 'k'})", idx: "r = int(k[0]-0xf0) + int(k[1])*16"},
	// distinct pointers into ONE allocation (elements of one slice)
	{name: "pointer_elem", typ: "*PK", mk: "&ptrCells[i]", idx: "r = k.id", needsP: true,
		decls: "type PK :struct {\n\tid: int\n\tpad: string\n}\nglobal ptrPool: []*PK\nglobal ptrCells: []PK\n"},
	{name: "f64", typ: "f64", mk: "fkey(i)", idx: "r = fidx(k)",
		decls: `
func fkey(i: int) => f64 {
	if i == 1 {
		nz: f64 = 0
		return -nz // -0.0 and 0.0 are one key
	}
	if i == 0 {
		return 0
	}
	return f64(i)/4 - 3
}
func fidx(k: f64) => int {
	if k == 0 {
		return 0
	}
	return int((k + 3) * 4)
}
`},
	{name: "bool", typ: "bool", mk: "i%2 == 1", idx: "if k {\nr = 1\n} else {\nr = 0\n}"},
	{name: "struct", typ: "SK", mk: `SK{a: i, b: "s" + itoa(i%3)}`, idx: "r = k.a",
		decls: "type SK :struct {\n\ta: int\n\tb: string\n}\n"},
	{name: "pointer", typ: "*PK", mk: "ptrPool[i]", idx: "r = k.id", needsP: true,
		decls: "type PK :struct {\n\tid: int\n\tpad: string\n}\nglobal ptrPool: []*PK\n"},
	{name: "interface", typ: "interface{}", mk: "ikey(i)", idx: "r = iidx(k)",
		decls: `
func ikey(i: int) => interface{} {
	switch i % 4 {
	case 0:
		return i
	case 1:
		return "s" + itoa(i)
	case 2:
		return f64(i) / 2
	}
	return i64(i) * 4294967311
}
func iidx(k: interface{}) => int {
	switch v := k.(type) {
	case int:
		return v
	case string:
		return atoi(v[1:])
	case f64:
		return int(v * 2)
	case i64:
		return int(v / 4294967311)
	}
	return -1
}
`},
}

func init() {
	keyKinds = append(keyKinds,
		// single-precision floats, -0.0 and 0.0 one key
		keyKind{name: "f32", typ: "f32", mk: "f32key(i)", idx: "r = f32idx(k)", decls: `
func f32key(i: int) => f32 {
	if i == 1 {
		nz: f32 = 0
		return -nz
	}
	if i == 0 {
		return 0
	}
	return f32(i)/4 - 3
}
func f32idx(k: f32) => int {
	if k == 0 {
		return 0
	}
	return int((k + 3) * 4)
}
`},
		// strings that are proper prefixes of each other, the empty string included
		keyKind{name: "string_prefix", typ: "string", mk: "pfxkey(i)", idx: "r = pfxidx(k)", decls: `
func pfxkey(i: int) => string {
	s := ""
	for j := 0; j < i%9; j++ {
		s += "a"
	}
	if i/9 > 0 {
		s += itoa(i / 9)
	}
	return s
}
func pfxidx(k: string) => int {
	r := 0
	for r < len(k) && k[r] == 'a' {
		r++
	}
	q := 0
	if r < len(k) {
		q = atoi(k[r:])
	}
	return q*9 + r
}
`},
		// a struct whose fields are of four different kinds; which field decides varies
		keyKind{name: "struct_mixed", typ: "SM", mk: `SM{s: "p" + itoa(i%3), f: f64(i/3%4) - 1.5, b: (i/12)%2 == 1, n: u8(i / 24)}`,
			idx:   "r = atoi(k.s[1:]) + 3*int(k.f+1.5) + 24*int(k.n)\nif k.b {\nr += 12\n}",
			decls: "type SM :struct {\n\ts: string\n\tf: f64\n\tb: bool\n\tn: u8\n}\n"},
	)
	keyKinds = append(keyKinds, keyKind{name: "interface_wide", typ: "interface{}", mk: "ikey2(i)", idx: "r = iidx2(k)", needsP: true,
		decls: `
type PK :struct {
	id:  int
	pad: string
}
global ptrPool: []*PK
type IK :struct {
	a: int
	b: string
}
func ikey2(i: int) => interface{} {
	switch i % 7 {
	case 0:
		return i%2 == 0
	case 1:
		return u8(i / 7 % 256)
	case 2:
		return IK{a: i, b: "s"}
	case 3:
		return ptrPool[i]
	case 4:
		return u32(i) * 2654435761
	case 5:
		return "w" + itoa(i)
	}
	return i64(i) - 1000
}
func iidx2(k: interface{}) => int {
	switch v := k.(type) {
	case bool:
		if v {
			return 0
		}
		return 7
	case u8:
		return int(v)*7 + 1
	case IK:
		return v.a
	case *PK:
		return v.id
	case u32:
		return int(v * 244002641)
	case string:
		return atoi(v[1:])
	case i64:
		return int(v + 1000)
	}
	return -1
}
`})
}

type valKind struct {
	name  string
	typ   string
	decls string
	mk    string // from int v
	hash  string // Wa expression: i64 content hash of x
	zeroH string // hash of the zero value (single-result lookup of an absent key)
}

var valKinds = []valKind{
	{name: "int", typ: "int", mk: "v", hash: "i64(x)"},
	{name: "string", typ: "string", mk: `"v" + itoa(v)`, hash: "hstr(x)"},
	{name: "slice", typ: "[]int", mk: "[]int{v, v + 1, v * 2}", hash: "hsl(x)"},
	{name: "pointer", typ: "*VN", mk: `mkvn(v)`, hash: "hvn(x)",
		decls: "type VN :struct {\n\tval: int\n\ts: string\n}\nfunc mkvn(v: int) => *VN {\n\tif v%5 == 0 {\n\t\treturn nil // a present key may hold nil\n\t}\n\treturn &VN{val: v, s: \"n\" + itoa(v)}\n}\nfunc hvn(p: *VN) => i64 {\n\tif p == nil {\n\t\treturn -5\n\t}\n\treturn i64(p.val)*31 + hstr(p.s)\n}\n"},
	{name: "iface", typ: "interface{}", mk: `mkiv(v)`, hash: "hiv(x)",
		decls: "func mkiv(v: int) => interface{} {\n\tswitch v % 4 {\n\tcase 0:\n\t\treturn nil\n\tcase 1:\n\t\treturn v\n\tcase 2:\n\t\treturn \"i\" + itoa(v)\n\t}\n\treturn []int{v}\n}\nfunc hiv(x: interface{}) => i64 {\n\tswitch t := x.(type) {\n\tcase nil:\n\t\treturn -6\n\tcase int:\n\t\treturn i64(t) * 3\n\tcase string:\n\t\treturn hstr(t)\n\tcase []int:\n\t\treturn hsl(t) + 1\n\t}\n\treturn -7\n}\n"},
}

const common = `
func itoa(v: int) => string {
	if v == 0 {
		return "0"
	}
	b: []byte
	for v > 0 {
		b = append(b, byte('0'+v%10))
		v /= 10
	}
	for i, j := 0, len(b)-1; i < j; i, j = i+1, j-1 {
		b[i], b[j] = b[j], b[i]
	}
	return string(b)
}
func atoi(s: string) => int {
	n := 0
	for i := 0; i < len(s); i++ {
		n = n*10 + int(s[i]-'0')
	}
	return n
}
func hstr(s: string) => i64 {
	h: i64 = 7
	for i := 0; i < len(s); i++ {
		h = h*131 + i64(s[i])
	}
	return h*4 + i64(len(s))
}
func hsl(s: []int) => i64 {
	h: i64 = 9
	for _, v := range s {
		h = h*1000003 + i64(v)
	}
	return h*8 + i64(len(s))
}
`

// Source generates the driver for a key kind, value kind, slot count and pool size.
func Source(k keyKind, v valKind, slots, pool int) string {
	var b strings.Builder
	b.WriteString("// generated map driver (verification harness)\n")
	b.WriteString(common)
	b.WriteString(k.decls)
	b.WriteString(v.decls)
	fmt.Fprintf(&b, "\nglobal ms: [%d]map[%s]%s\nglobal seen: []int\nglobal gone: []int\nglobal rCount, rDup, rBad: int\nglobal rKeySum, rValSum: i64\n", slots, k.typ, v.typ)
	fmt.Fprintf(&b, `
func mkKey(i: int) => %s {
	return %s
}
func keyIdx(k: %s) => int {
	r := -1
	%s
	return r
}
func mkVal(v: int) => %s {
	return %s
}
func hVal(x: %s) => i64 {
	return %s
}
`, k.typ, k.mk, k.typ, strings.ReplaceAll(k.idx, "\n", "\n\t"), v.typ, v.mk, v.typ, v.hash)
	fmt.Fprintf(&b, `
#wa:export setup
func setup() {
	seen = make([]int, %d)
	gone = make([]int, %d)
`, pool, pool)
	if k.needsP {
		fmt.Fprintf(&b, "\tptrPool = make([]*PK, %d)\n\tfor i := range ptrPool {\n\t\tptrPool[i] = &PK{id: i, pad: itoa(i)}\n\t}\n", pool)
		if strings.Contains(k.decls, "ptrCells") {
			fmt.Fprintf(&b, "\tptrCells = make([]PK, %d)\n\tfor i := range ptrCells {\n\t\tptrCells[i].id = i\n\t}\n", pool)
		}
	}
	fmt.Fprintf(&b, "\tfor i := 0; i < %d; i++ {\n\t\tms[i] = make(map[%s]%s)\n\t}\n}\n", slots, k.typ, v.typ)
	fmt.Fprintf(&b, `
#wa:export put
func put(s: i32, i: i32, v: i32) => i32 {
	ms[s][mkKey(int(i))] = mkVal(int(v))
	return i32(len(ms[s]))
}

#wa:export get
func get(s: i32, i: i32) => i64 {
	x, ok := ms[s][mkKey(int(i))]
	if !ok {
		return -1
	}
	return hVal(x)
}

#wa:export get1
func get1(s: i32, i: i32) => i64 {
	x := ms[s][mkKey(int(i))]
	return hVal(x)
}

#wa:export del
func del(s: i32, i: i32) => i32 {
	delete(ms[s], mkKey(int(i)))
	return i32(len(ms[s]))
}

#wa:export length
func length(s: i32) => i32 {
	return i32(len(ms[s]))
}

#wa:export fresh
func fresh(s: i32) => i32 {
	ms[s] = make(map[%s]%s)
	return 0
}

// dropall discards every map (C12: everything they held must be reclaimed).
#wa:export dropall
func dropall() {
	for i := range ms {
		ms[i] = make(map[%s]%s)
	}
}

#wa:export alias
func alias(s: i32, t: i32) => i32 {
	ms[s] = ms[t]
	return i32(len(ms[s]))
}

// rng walks the map; results are left in globals read by rget.
#wa:export rng
func rng(s: i32) => i32 {
	for i := range seen {
		seen[i] = 0
	}
	rCount, rDup, rBad = 0, 0, 0
	rKeySum, rValSum = 0, 0
	for k, x := range ms[s] {
		i := keyIdx(k)
		if i < 0 || i >= len(seen) {
			rBad++
			continue
		}
		if seen[i] != 0 {
			rDup++
		}
		seen[i]++
		rCount++
		rKeySum += i64(i+1) * 1000003
		rValSum += hVal(x) * i64(i+1)
	}
	return i32(rCount)
}

// rngdel walks the map and deletes the keys whose index satisfies idx%%m == r while walking.
#wa:export rngdel
func rngdel(s: i32, m: i32, r: i32) => i32 {
	for i := range seen {
		seen[i] = 0
	}
	rCount, rDup, rBad = 0, 0, 0
	rKeySum, rValSum = 0, 0
	for k, x := range ms[s] {
		i := keyIdx(k)
		if i < 0 || i >= len(seen) {
			rBad++
			continue
		}
		if seen[i] != 0 {
			rDup++
		}
		seen[i]++
		rCount++
		rKeySum += i64(i+1) * 1000003
		rValSum += hVal(x) * i64(i+1)
		if i%%int(m) == int(r) {
			delete(ms[s], k)
		}
	}
	return i32(rCount)
}

// rngdelo walks the map and, for visited keys whose index satisfies idx%%m == r,
// deletes ANOTHER key (index (idx+shift)%%pool, present or not) while walking. A key
// deleted before it is reached must not be visited afterwards (rBad); a key that is
// never deleted must be visited exactly once (checked by the host from seen/gone).
#wa:export rngdelo
func rngdelo(s: i32, m: i32, r: i32, shift: i32, pool: i32) => i32 {
	for i := range seen {
		seen[i] = 0
		gone[i] = 0
	}
	rCount, rDup, rBad = 0, 0, 0
	rKeySum, rValSum = 0, 0
	for k, x := range ms[s] {
		i := keyIdx(k)
		if i < 0 || i >= len(seen) {
			rBad++
			continue
		}
		if gone[i] != 0 {
			rBad++
		}
		if seen[i] != 0 {
			rDup++
		}
		seen[i]++
		rCount++
		rValSum += hVal(x) * i64(i+1)
		if i%%int(m) == int(r) {
			jk := mkKey((i + int(shift)) %% int(pool))
			delete(ms[s], jk)
			gone[keyIdx(jk)] = 1
		}
	}
	return i32(rCount)
}

#wa:export goneAt
func goneAt(i: i32) => i32 {
	return i32(gone[i])
}

// rngins walks the map and, for visited keys whose index satisfies idx%%m == r,
// inserts another key (index idx+shift) while walking.
#wa:export rngins
func rngins(s: i32, m: i32, r: i32, shift: i32, v: i32) => i32 {
	for i := range seen {
		seen[i] = 0
	}
	rCount, rDup, rBad = 0, 0, 0
	rKeySum, rValSum = 0, 0
	n := 0
	for k, x := range ms[s] {
		_ = x
		i := keyIdx(k)
		if i < 0 || i >= len(seen) {
			rBad++
			continue
		}
		if seen[i] != 0 {
			rDup++
		}
		seen[i]++
		rCount++
		if i%%int(m) == int(r) && n < 8 {
			n++
			ms[s][mkKey((i+int(shift))%%len(seen))] = mkVal(int(v))
		}
	}
	return i32(rCount)
}

// rngnest: a range loop over the map nested in a range loop over the same map.
#wa:export rngnest
func rngnest(s: i32) => i64 {
	outer: i64 = 0
	inner: i64 = 0
	for k1, x1 := range ms[s] {
		_ = x1
		outer += i64(keyIdx(k1) + 1)
		for k2, x2 := range ms[s] {
			_ = x2
			inner += i64(keyIdx(k1)+1) * i64(keyIdx(k2)+1)
		}
	}
	return outer*1000003 + inner
}

#wa:export rget
func rget(what: i32) => i64 {
	switch what {
	case 0:
		return i64(rCount)
	case 1:
		return rKeySum
	case 2:
		return rValSum
	case 3:
		return i64(rDup)
	case 4:
		return i64(rBad)
	}
	return -1
}

#wa:export seenAt
func seenAt(i: i32) => i32 {
	return i32(seen[i])
}

func main {
	setup()
}
`, k.typ, v.typ, k.typ, v.typ)
	return b.String()
}

// NDrivers is the number of (key kind, value kind) drivers.
func NDrivers() int { return len(keyKinds) * len(valKinds) }

// DriverSource returns the source and a description of driver id.
func DriverSource(id int) (src, desc string) {
	k := keyKinds[id%len(keyKinds)]
	v := valKinds[id/len(keyKinds)%len(valKinds)]
	return Source(k, v, slots, poolMax), "map[" + k.name + "]" + v.name
}

const Slots = slots
