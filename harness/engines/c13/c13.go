// Package c13: Wa runtime maps against a Go map model, for every key kind,
// under the simulated allocator (poison on free, immediate reuse, quarantine,
// scattered placement) - the red-black tree frees and reuses nodes on delete,
// and a stale node pointer only shows under those faults.
package c13

import (
	"fmt"
	"sort"
	"strings"

	"verif/harness/allocsim"
	"verif/harness/sim"
	"verif/harness/tape"
	"wa-lang.org/wa/verifbridge/wab"
)

const slots = 3
const poolMax = 2048

type driver struct {
	k keyKind
	v valKind
	c *wab.Compiled
}

type Engine struct {
	tier    string
	drivers map[int]*driver
	seed    uint64
	run     uint64
	built   int
}

func New() sim.Engine { return &Engine{drivers: map[int]*driver{}} }

func (e *Engine) Setup(tier string) error { e.tier = tier; return nil }
func (e *Engine) Strides() []int          { return []int{4} }
func (e *Engine) ShrinkBudget() int       { return 400 }
func (e *Engine) SetRun(seed, run uint64) { e.seed, e.run = seed, run }
func (e *Engine) Extra() map[string]any {
	return map[string]any{"drivers_compiled_by_this_worker": e.built}
}

func (e *Engine) driver(id int) (*driver, error) {
	if d := e.drivers[id]; d != nil {
		return d, nil
	}
	k := keyKinds[id%len(keyKinds)]
	v := valKinds[id/len(keyKinds)%len(valKinds)]
	src := Source(k, v, slots, poolMax)
	c, err := wab.Build("mapdriver.wa", src)
	if err != nil {
		return nil, fmt.Errorf("driver map[%s]%s: %v", k.name, v.name, err)
	}
	d := &driver{k, v, c}
	e.drivers[id] = d
	e.built++
	return d, nil
}

// ---- Go side of the key/value encodings -------------------------------

func itoa(v int) string { return fmt.Sprint(v) }

func hstr(s string) int64 {
	h := int64(7)
	for i := 0; i < len(s); i++ {
		h = h*131 + int64(s[i])
	}
	return h*4 + int64(len(s))
}

func hval(vk string, v int) int64 {
	switch vk {
	case "int":
		return int64(v)
	case "string":
		return hstr("v" + itoa(v))
	case "slice":
		h := int64(9)
		for _, x := range []int{v, v + 1, v * 2} {
			h = h*1000003 + int64(x)
		}
		return h*8 + 3
	case "pointer":
		if v%5 == 0 {
			return -5
		}
		return int64(v)*31 + hstr("n"+itoa(v))
	case "iface":
		switch v % 4 {
		case 0:
			return -6
		case 1:
			return int64(v) * 3
		case 2:
			return hstr("i" + itoa(v))
		}
		return (9*1000003+int64(v))*8 + 1 + 1
	}
	panic("hval")
}

func hzero(vk string) int64 {
	switch vk {
	case "int":
		return 0
	case "string":
		return 28
	case "slice":
		return 72
	case "pointer":
		return -5
	case "iface":
		return -6
	}
	panic("hzero")
}

// canon maps a key index to the representative of its equality class.
func canon(kk string, i int) int {
	switch kk {
	case "u8":
		return i % 256
	case "bool":
		return i % 2
	case "f64", "f32":
		if i == 1 || i == 12 {
			return 0
		}
	case "interface_wide":
		switch i % 7 {
		case 0: // bool keys: true (even i) is index 0, false (odd i) is index 7
			if i%2 == 0 {
				return 0
			}
			return 7
		case 1: // u8(i/7 % 256): indices with equal (i/7)%256 are one key
			return (i/7%256)*7 + 1
		}
	}
	return i
}

// ---- history ------------------------------------------------------------

const (
	opPut = iota
	opGet
	opGet1
	opDel
	opLen
	opRange
	opRangeDel
	opFresh
	opAlias
	opRangeIns
	opRangeNest
	opRangeDelOther
	nOps
)

var opNames = []string{"put", "get", "get1", "del", "len", "range", "rangedel", "fresh", "alias", "range-with-insert", "nested-range", "range-with-delete-of-other-keys"}

type op struct {
	kind, slot, key, val int
}

type sample struct {
	Driver string   `json:"driver"`
	Pool   int      `json:"key_pool"`
	Mode   string   `json:"allocator_mode"`
	Ops    []string `json:"ops"`
	Log    []string `json:"log,omitempty"`
}

func (s *sample) LogLines() []string { return s.Log }

func genHistory(t *tape.Tape, tier string) ([]op, int) {
	withRangeDel := t.Draw(3) != 0 // most runs also mutate the map while walking it
	pool := []int{4, 2, 16, 200, 2000}[t.Draw(5)]
	maxOps := 400
	if tier == "thorough" {
		maxOps = 5000
	}
	var n int
	switch t.Pick(3, 4, 3) {
	case 0:
		n = t.Range(1, 12)
	case 1:
		n = t.Range(1, 120)
	default:
		n = t.Range(1, maxOps)
	}
	ops := make([]op, 0, n)
	phase := 0
	ctr := 0
	for i := 0; i < n; i++ {
		kd := t.Draw(100)
		sl := t.Draw(slots)
		key := t.Draw(pool)
		val := t.Draw(1000)
		if kd >= 97 { // phase switch
			phase = val % 6
			ctr = 0
		}
		var o op
		o.slot, o.key, o.val = sl, key, val
		switch phase {
		case 1: // ascending inserts
			o.kind, o.key = opPut, ctr%pool
			ctr++
		case 2: // descending inserts
			o.kind, o.key = opPut, (pool-1-ctr%pool+pool)%pool
			ctr++
		case 3: // delete in order
			o.kind, o.key = opDel, ctr%pool
			ctr++
		case 4: // churn around a fixed size
			if kd%2 == 0 {
				o.kind = opPut
			} else {
				o.kind = opDel
			}
		default:
			switch {
			case kd < 40:
				o.kind = opPut
			case kd < 55:
				o.kind = opGet
			case kd < 60:
				o.kind = opGet1
			case kd < 80:
				o.kind = opDel
			case kd < 84:
				o.kind = opLen
			case kd < 90:
				o.kind = opRange
			case kd < 92:
				o.kind = opRange
				if withRangeDel {
					o.kind = opRangeDel
					if val%2 == 1 {
						o.kind = opRangeDelOther
					}
				}
			case kd < 93:
				o.kind = opFresh
				if val%3 == 0 {
					o.kind = opRangeNest
				} else if val%3 == 1 && withRangeDel {
					o.kind = opRangeIns
				}
			case kd < 95:
				o.kind = opAlias
			default:
				o.kind = opRange
			}
		}
		if phase >= 1 && phase <= 4 && kd >= 90 && kd < 97 {
			o.kind = opRange // sprinkle full walks into the phases
		}
		ops = append(ops, o)
	}
	return ops, pool
}

type outcome struct{ class, detail, opname string }

// execute runs the history on a fresh instance under the given allocator mode
// and checks every result against the Go map model.
func (e *Engine) execute(d *driver, ops []op, pool int, mode allocsim.Mode, t *tape.Tape, res *sim.Result, log *tape.Log) (*outcome, *allocsim.Host, string) {
	host := allocsim.New(mode, t, d.c.HeapBase, 0)
	in, err := d.c.Instantiate(host)
	if err != nil {
		return nil, host, "instantiate: " + err.Error()
	}
	defer in.Close()
	call := func(name string, args ...uint64) (uint64, *outcome) {
		r, err := in.Call(name, args...)
		if err != nil {
			if in.OutOfFuel() {
				return 0, &outcome{"hang", name + " did not terminate within the step bound", name}
			}
			return 0, &outcome{"trap", name + ": " + firstLine(err.Error()), name}
		}
		if host.Violation != "" {
			return 0, &outcome{host.VClass, host.Violation, name}
		}
		if len(r) == 0 {
			return 0, nil
		}
		return r[0], nil
	}
	if _, oc := call("setup"); oc != nil {
		return oc, host, ""
	}
	kk, vk := d.k.name, d.v.name
	model := make([]map[int]int, slots)
	for i := range model {
		model[i] = map[int]int{}
	}
	// boundedSkip is the suffix of the operation name in the signature of the one
	// listed finding (known_findings.json): while a loop deletes keys it has
	// already visited, at most one other present key per such delete is skipped -
	// and nothing else is wrong (no key twice, no key after its deletion, no stale
	// value, length right). Anything beyond that keeps the plain name.
	const boundedSkip = "[only skips, at most one per delete]"
	checkRange := func(m map[int]int, o op, expectCount int, name string, deletedByLoop func(k int) bool) *outcome {
		cnt, oc := call("rget", 0)
		if oc != nil {
			return oc
		}
		ks, _ := call("rget", 1)
		vs, _ := call("rget", 2)
		dup, _ := call("rget", 3)
		bad, _ := call("rget", 4)
		var eks, evs int64
		for k, v := range m {
			eks += int64(k+1) * 1000003
			evs += hval(vk, v) * int64(k+1)
		}
		if int64(dup) != 0 {
			return &outcome{"range_mismatch", fmt.Sprintf("%s(slot %d): %d key(s) visited more than once", name, o.slot, int64(dup)), name}
		}
		if int64(bad) != 0 {
			return &outcome{"range_mismatch", fmt.Sprintf("%s(slot %d): %d visited key(s) were never inserted", name, o.slot, int64(bad)), name}
		}
		if int(int64(cnt)) != expectCount || int64(ks) != eks {
			// which keys?
			var missing, extra []int
			var visKs, visVs int64
			deletes := 0
			for k, v := range m {
				s, _ := call("seenAt", uint64(k))
				if s == 0 {
					missing = append(missing, k)
				} else {
					visKs += int64(k+1) * 1000003
					visVs += hval(vk, v) * int64(k+1)
					if deletedByLoop != nil && deletedByLoop(k) {
						deletes++
					}
				}
			}
			if deletedByLoop != nil && len(missing) > 0 && len(missing) <= deletes && int(int64(cnt)) == expectCount-len(missing) && int64(ks) == visKs && int64(vs) == visVs {
				name += boundedSkip
			}
			sort.Ints(missing)
			if len(missing) > 8 {
				missing = missing[:8]
			}
			return &outcome{"range_mismatch", fmt.Sprintf("%s(slot %d): visited %d keys (key checksum %d), the map holds %d (checksum %d); present but not visited: %v extra: %v", name, o.slot, int64(cnt), int64(ks), expectCount, eks, missing, extra), name}
		}
		if int64(vs) != evs {
			return &outcome{"range_mismatch", fmt.Sprintf("%s(slot %d): value checksum %d, expected %d (a key was visited with a value that is not its current value)", name, o.slot, int64(vs), evs), name}
		}
		return nil
	}
	for i, o := range ops {
		m := model[o.slot]
		ck := canon(kk, o.key)
		name := opNames[o.kind]
		switch o.kind {
		case opPut:
			r, oc := call("put", uint64(o.slot), uint64(o.key), uint64(o.val))
			if oc != nil {
				return oc, host, ""
			}
			if _, had := m[ck]; had {
				res.Probes["overwrite"]++
			}
			m[ck] = o.val
			if int(int32(r)) != len(m) {
				return &outcome{"len_mismatch", fmt.Sprintf("op %d put(slot %d, key %d): len %d, model %d", i, o.slot, o.key, int32(r), len(m)), name}, host, ""
			}
		case opGet:
			r, oc := call("get", uint64(o.slot), uint64(o.key))
			if oc != nil {
				return oc, host, ""
			}
			v, ok := m[ck]
			exp := int64(-1)
			if ok {
				exp = hval(vk, v)
			}
			if int64(r) != exp {
				return &outcome{"lookup_mismatch", fmt.Sprintf("op %d get(slot %d, key %d): comma-ok lookup gave %d, model (present=%v) gives %d", i, o.slot, o.key, int64(r), ok, exp), name}, host, ""
			}
		case opGet1:
			r, oc := call("get1", uint64(o.slot), uint64(o.key))
			if oc != nil {
				return oc, host, ""
			}
			v, ok := m[ck]
			exp := hzero(vk)
			if ok {
				exp = hval(vk, v)
			}
			if int64(r) != exp {
				return &outcome{"lookup_mismatch", fmt.Sprintf("op %d get1(slot %d, key %d): lookup gave %d, model (present=%v) gives %d", i, o.slot, o.key, int64(r), ok, exp), name}, host, ""
			}
		case opDel:
			r, oc := call("del", uint64(o.slot), uint64(o.key))
			if oc != nil {
				return oc, host, ""
			}
			if _, had := m[ck]; had {
				res.Probes["delete_present"]++
			} else {
				res.Probes["delete_absent"]++
			}
			delete(m, ck)
			if int(int32(r)) != len(m) {
				return &outcome{"len_mismatch", fmt.Sprintf("op %d del(slot %d, key %d): len %d, model %d", i, o.slot, o.key, int32(r), len(m)), name}, host, ""
			}
			if len(m) == 0 {
				res.Probes["map_emptied"]++
			}
		case opLen:
			r, oc := call("length", uint64(o.slot))
			if oc != nil {
				return oc, host, ""
			}
			if int(int32(r)) != len(m) {
				return &outcome{"len_mismatch", fmt.Sprintf("op %d len(slot %d): %d, model %d", i, o.slot, int32(r), len(m)), name}, host, ""
			}
		case opRange:
			if _, oc := call("rng", uint64(o.slot)); oc != nil {
				return oc, host, ""
			}
			if oc := checkRange(m, o, len(m), "range", nil); oc != nil {
				oc.detail = fmt.Sprintf("op %d %s", i, oc.detail)
				return oc, host, ""
			}
			res.Probes["range_walks"]++
		case opRangeDel:
			mod := 2 + o.val%3
			rem := o.key % mod
			if _, oc := call("rngdel", uint64(o.slot), uint64(mod), uint64(rem)); oc != nil {
				return oc, host, ""
			}
			// only the current key is deleted while walking: every key present at the
			// start must still be visited exactly once, with its value
			if oc := checkRange(m, o, len(m), "range-with-delete-of-current-key", func(k int) bool { return k%mod == rem }); oc != nil {
				oc.detail = fmt.Sprintf("op %d %s", i, oc.detail)
				return oc, host, ""
			}
			for k := range m {
				if k%mod == rem {
					delete(m, k)
				}
			}
			res.Probes["range_with_delete"]++
		case opRangeDelOther:
			mod := 1 + o.val%3
			rem := o.key % mod
			shift := o.val / 3 % 9 // 0: the key being visited itself
			if shift > 0 && o.val%5 == 0 {
				shift = pool - shift // a key that lies before the visited one in index order
				if shift <= 0 {
					shift = 1
				}
			}
			before := map[int]int{}
			for k, v := range m {
				before[k] = v
			}
			if _, oc := call("rngdelo", uint64(o.slot), uint64(mod), uint64(rem), uint64(shift), uint64(pool)); oc != nil {
				return oc, host, ""
			}
			dup, _ := call("rget", 3)
			bad, _ := call("rget", 4)
			if int64(dup) != 0 || int64(bad) != 0 {
				return &outcome{"range_mismatch", fmt.Sprintf("op %d range-with-delete-of-other-keys(slot %d, every key with index%%%d==%d deletes index+%d): %d key(s) visited twice, %d key(s) visited after they had been deleted (or never inserted)", i, o.slot, mod, rem, shift, int64(dup), int64(bad)), name}, host, ""
			}
			// a key present at the start and not deleted by the loop is visited exactly
			// once; one the loop deleted is visited at most once (and not after its
			// deletion: counted by the driver above)
			var vsum int64
			var skipped []int
			deletes := 0
			for k, v := range before {
				sn, _ := call("seenAt", uint64(k))
				g, _ := call("goneAt", uint64(k))
				if sn > 1 {
					return &outcome{"range_mismatch", fmt.Sprintf("op %d range-with-delete-of-other-keys(slot %d): key %d was visited %d times", i, o.slot, k, sn), name}, host, ""
				}
				if g == 0 && sn != 1 {
					skipped = append(skipped, k)
				}
				if sn == 1 {
					vsum += hval(vk, v) * int64(k+1)
				}
				if g != 0 {
					delete(m, k)
					deletes++
				}
			}
			if got, _ := call("rget", 2); int64(got) != vsum {
				return &outcome{"range_mismatch", fmt.Sprintf("op %d range-with-delete-of-other-keys(slot %d): value checksum %d, expected %d: a key was visited with a value that is not its current one", i, o.slot, int64(got), vsum), name}, host, ""
			}
			ln, oc := call("length", uint64(o.slot))
			if oc != nil {
				return oc, host, ""
			}
			if int(int32(ln)) != len(m) {
				return &outcome{"len_mismatch", fmt.Sprintf("op %d after range-with-delete-of-other-keys(slot %d): len %d, model %d", i, o.slot, int32(ln), len(m)), name}, host, ""
			}
			if len(skipped) > 0 {
				sort.Ints(skipped)
				nm := name
				if len(skipped) <= deletes {
					nm += boundedSkip
				}
				if len(skipped) > 8 {
					skipped = skipped[:8]
				}
				return &outcome{"range_mismatch", fmt.Sprintf("op %d range-with-delete-of-other-keys(slot %d, every key with index%%%d==%d deletes index+%d): the loop deleted %d present keys; present at the start, never deleted, and not visited: %v", i, o.slot, mod, rem, shift, deletes, skipped), nm}, host, ""
			}
			res.Probes["range_with_delete_of_other_keys"]++
		case opRangeNest:
			if len(m) > 60 {
				break // quadratic
			}
			r, oc := call("rngnest", uint64(o.slot))
			if oc != nil {
				return oc, host, ""
			}
			var so int64
			for k := range m {
				so += int64(k + 1)
			}
			if exp := so*1000003 + so*so; int64(r) != exp {
				return &outcome{"range_mismatch", fmt.Sprintf("op %d nested range over slot %d: checksum %d, expected %d (each of the %d keys must be visited once by the outer and once per outer step by the inner loop)", i, o.slot, int64(r), exp, len(m)), name}, host, ""
			}
			res.Probes["nested_range_walks"]++
		case opRangeIns:
			mod := 2 + o.val%3
			rem := o.key % mod
			shift := 1 + o.val%7
			before := map[int]bool{}
			for k := range m {
				before[k] = true
			}
			cnt, oc := call("rngins", uint64(o.slot), uint64(mod), uint64(rem), uint64(shift), uint64(o.val))
			if oc != nil {
				return oc, host, ""
			}
			dup, _ := call("rget", 3)
			bad, _ := call("rget", 4)
			if int64(dup) != 0 || int64(bad) != 0 {
				return &outcome{"range_mismatch", fmt.Sprintf("op %d range-with-insert(slot %d): %d key(s) visited twice, %d visited key(s) never inserted", i, o.slot, int64(dup), int64(bad)), name}, host, ""
			}
			// keys present at the start must be visited exactly once; keys inserted while
			// walking may or may not be visited (at most once, checked by dup)
			for k := range before {
				sn, _ := call("seenAt", uint64(k))
				if sn != 1 {
					return &outcome{"range_mismatch", fmt.Sprintf("op %d range-with-insert(slot %d): key %d, present when the loop started, was visited %d times", i, o.slot, k, sn), name}, host, ""
				}
			}
			if int(int32(cnt)) < len(before) {
				return &outcome{"range_mismatch", fmt.Sprintf("op %d range-with-insert(slot %d): visited %d keys, %d were present at the start", i, o.slot, int32(cnt), len(before)), name}, host, ""
			}
			// replay the inserts on the model: the Wa side inserted for the first 8 visited keys
			// satisfying the condition, in visiting order - which the model cannot know; read the map back instead
			ln, oc := call("length", uint64(o.slot))
			if oc != nil {
				return oc, host, ""
			}
			// resynchronise the model from the implementation for the keys this op may have touched
			for k := 0; k < pool+64 && k < poolMax; k++ { // up to 8 chained inserts, each at most 7 further
				r, _ := call("get", uint64(o.slot), uint64(k))
				ck2 := canon(kk, k)
				if int64(r) == -1 {
					if _, had := m[ck2]; had && !before[ck2] {
						delete(m, ck2)
					}
					continue
				}
				if !before[ck2] {
					m[ck2] = o.val
				} else if int64(r) != hval(vk, m[ck2]) {
					m[ck2] = o.val // overwritten while walking
				}
			}
			if int(int32(ln)) != len(m) {
				return &outcome{"len_mismatch", fmt.Sprintf("op %d after range-with-insert(slot %d): len %d, %d distinct keys found by lookup", i, o.slot, int32(ln), len(m)), name}, host, ""
			}
			res.Probes["range_with_insert"]++
		case opFresh:
			if _, oc := call("fresh", uint64(o.slot)); oc != nil {
				return oc, host, ""
			}
			model[o.slot] = map[int]int{}
		case opAlias:
			tslot := o.key % slots
			r, oc := call("alias", uint64(o.slot), uint64(tslot))
			if oc != nil {
				return oc, host, ""
			}
			model[o.slot] = model[tslot]
			if int(int32(r)) != len(model[o.slot]) {
				return &outcome{"len_mismatch", fmt.Sprintf("op %d alias(slot %d <- %d): len %d, model %d", i, o.slot, tslot, int32(r), len(model[o.slot])), name}, host, ""
			}
		}
		res.Steps++
		if n := len(model[o.slot]); n > 64 {
			res.Probes["map_larger_than_64"]++
		}
	}
	host.CheckQuarantine(in.Mem())
	if host.Violation != "" {
		return &outcome{host.VClass, host.Violation, "end"}, host, ""
	}
	return nil, host, host.Trouble
}

func (e *Engine) Run(t *tape.Tape, keep bool) *sim.Result {
	res := sim.NewResult()
	var log tape.Log
	log.Keep = keep
	// driver: chosen by the run block (so that consecutive runs reuse the
	// compiled module), with a tape-drawn override so the shrinker can move to
	// the simplest driver.
	nDrivers := len(keyKinds) * len(valKinds)
	id := int(tape.Mix(e.seed^0x13, (e.run/(16*64))*16+e.run%16) % uint64(nDrivers))
	d, err := e.driver(id)
	if err != nil {
		res.Trouble = err.Error()
		return res
	}
	ops, pool := genHistory(t, e.tier)
	mode := allocsim.Mode(1 + t.Draw(int(allocsim.NModes)-1))
	sm := &sample{Driver: fmt.Sprintf("map[%s]%s", d.k.name, d.v.name), Pool: pool, Mode: allocsim.ModeNames[mode]}
	for i, o := range ops {
		if i < 60 || keep {
			sm.Ops = append(sm.Ops, fmt.Sprintf("%s(s%d,k%d,v%d)", opNames[o.kind], o.slot, o.key, o.val))
		}
	}
	res.Sample = sm
	log.Add(fmt.Sprintf("driver=%s pool=%d ops=%d mode=%s", sm.Driver, pool, len(ops), sm.Mode))
	res.Probes["key_"+d.k.name]++
	res.Probes["val_"+d.v.name]++
	finish := func(oc *outcome, modeName string) *sim.Result {
		log.Add("VIOLATION " + oc.class + " " + oc.detail)
		res.Violation = &sim.Violation{Class: oc.class, Signature: fmt.Sprintf("%s:%s:key=%s", oc.class, oc.opname, d.k.name),
			Detail: fmt.Sprintf("map[%s]%s, allocator mode %s: %s", d.k.name, d.v.name, modeName, oc.detail)}
		res.Digest = log.Digest()
		sm.Log = log.Lines
		return res
	}
	// fault-free configuration first (plain allocator), then the drawn fault mode
	oc, h0, trouble := e.execute(d, ops, pool, allocsim.Plain, t, res, &log)
	if trouble != "" {
		res.Trouble = trouble
		return res
	}
	if oc != nil {
		return finish(oc, "plain")
	}
	log.Add(fmt.Sprintf("plain ok mallocs=%d frees=%d", h0.Mallocs, h0.Frees))
	oc, h1, trouble := e.execute(d, ops, pool, mode, t, res, &log)
	if trouble != "" {
		res.Trouble = trouble
		return res
	}
	res.Faults["poison_on_free"] += h1.Frees
	res.Faults["dirty_fresh_bytes"] += int(h1.DirtiedBytes)
	res.Faults["reuse_of_freed_block"] += h1.Reused
	res.Faults["immediate_reuse"] += h1.ImmediateReuseHits
	res.Faults["mode_"+allocsim.ModeNames[mode]]++
	res.Probes["heapalloc_zero_checks"] += h1.ZeroChecks
	res.Probes["quarantine_checks"] += h1.QuarChecks
	if oc != nil {
		return finish(oc, allocsim.ModeNames[mode])
	}
	log.Add(fmt.Sprintf("%s ok mallocs=%d frees=%d", allocsim.ModeNames[mode], h1.Mallocs, h1.Frees))
	res.States = append(res.States, fmt.Sprintf("%s/%s/p%d/%s/n%d", d.k.name, d.v.name, pool, allocsim.ModeNames[mode], bucket(len(ops))))
	res.Nontrivial = h1.Frees > 0
	res.Digest = log.Digest()
	sm.Log = log.Lines
	return res
}

func bucket(n int) int {
	b := 0
	for n > 0 {
		n /= 2
		b++
	}
	return b
}

func firstLine(s string) string {
	if i := strings.IndexByte(s, '\n'); i >= 0 {
		return s[:i]
	}
	return s
}
