package c28

import "wa-lang.org/wa/api"

// Small corpus for the concurrent-API scenarios: programs whose compilation
// uses the table, the data segment (string constants), closures, methods,
// interfaces and maps of the module under construction, in both syntaxes, plus
// ill-typed programs so that error paths run concurrently with successes.

type program struct {
	Name string
	File string
	Src  string
}

var corpus = []program{
	{"hello_a", "a.wa", `
func main {
	println("alpha-alpha-alpha")
	println(add(40, 2))
}

func add(a: i32, b: i32) => i32 {
	return a + b
}
`},
	{"strings_b", "b.wa", `
global names = []string{"beta", "gamma", "delta"}

func join(xs: []string, sep: string) => string {
	r := ""
	for i, x := range xs {
		if i > 0 {
			r += sep
		}
		r += x
	}
	return r
}

func main {
	println(join(names, "+"))
	println("BETA-" + names[1])
}
`},
	{"closures_c", "c.wa", `
type Counter :struct {
	n: int
}

func Counter.Inc() => int {
	this.n++
	return this.n
}

func mk(start: int) => func() => int {
	x := start
	return func() => int {
		x += 3
		return x
	}
}

func main {
	f := mk(10)
	f()
	println(f())
	c := &Counter{n: 5}
	g := c.Inc
	g()
	println(g())
	println("closures-c")
}
`},
	{"iface_d", "d.wa", `
type Shape interface {
	Area() => int
	Name() => string
}

type Sq :struct {
	s: int
}

type Rc :struct {
	w, h: int
}

func Sq.Area() => int { return this.s * this.s }
func Sq.Name() => string { return "square" }
func Rc.Area() => int { return this.w * this.h }
func Rc.Name() => string { return "rect" }

func main {
	shapes := []Shape{&Sq{3}, &Rc{2, 5}, &Sq{4}}
	total := 0
	for _, s := range shapes {
		println(s.Name(), s.Area())
		total += s.Area()
	}
	println("total", total)
}
`},
	{"maps_e", "e.wa", `
func main {
	m := make(map[string]int)
	m["one"] = 1
	m["two"] = 2
	m["three"] = 3
	delete(m, "two")
	v, ok := m["three"]
	println(v, ok, len(m))
	k := make(map[int]string)
	for i := 0; i < 5; i++ {
		k[i*i] = "sq"
	}
	println(len(k), k[9])
}
`},
	{"hello_wz", "f.wz", "引入 \"书\"\n\n函数 主控:\n    书·说(\"你好，凹语言中文版！\")\n完毕\n"},
	{"illtyped_g", "g.wa", `
func main {
	x: int = "not an int"
	println(x + y)
}
`},
	{"syntaxerr_h", "h.wa", `
func main {
	println("unterminated
}
`},
	{"ostag_j", "j.wa", `
import "apple"

func main {
	println(apple.Apple())
}
`},
	{"ostag_k", "k.wa", `
import "apple"
import "math/rand"

func main {
	r := rand.New(rand.NewSource(7))
	println(apple.Apple(), r.Intn(100))
}
`},
	{"ostag_l", "l.wa", `
import "apple"

global banner = "banner-" + apple.Apple()

func main {
	println(banner, len(banner))
}
`},
	// type-checks, but the code generator panics on it ("TODO: unsafe.MakeString"):
	// a caller that recovers (as net/http does per request) must not poison later calls
	{"genpanic_m", "m.wa", `
import "unsafe"

func main {
	p: uintptr = 1024
	s := unsafe.MakeString(p, 4)
	println(len(s))
}
`},
	// output depends on the configured word size / alignment (cfg.WaSizes)
	{"sizes_n", "n.wa", `
import "unsafe"

type Rec :struct {
	tag: u8
	big: i64
	w:   i32
}

func main {
	r: Rec
	println(unsafe.Sizeof(r), unsafe.Alignof(r.big), unsafe.Offsetof(r.big), unsafe.Offsetof(r.w))
}
`},
	// output-heavy programs: integers of every width go through the runner's print host functions
	{"ints_o", "o.wa", `
func main {
	for i := 0; i < 12; i++ {
		println(100000 + i*7919)
	}
	println(u32(4000000000) - u32(7))
}
`},
	{"ints_p", "p.wa", `
func main {
	x: i64 = 1 << 40
	for i := 0; i < 9; i++ {
		println(2000003+i*104729, x+i64(i), u64(x)*3+u64(i))
	}
}
`},
	// sources with Windows line endings inside block comments and raw strings
	{"crlf_q", "q.wa", "/* block comment of Q\r\n   second line of the comment q */\r\nfunc main {\r\n\ts := `raw q\r\nline two of q`\r\n\tprintln(s, len(s))\r\n}\r\n"},
	{"crlf_r", "r.wa", "/* another block comment, R, longer than the first\r\n   2nd line r\r\n   3rd line r */\r\nfunc main {\r\n\tt := `RAW R\r\nLINE 2 R\r\nLINE 3 R`\r\n\tprintln(len(t), t)\r\n}\r\n"},
	{"crlf_s", "s.wa", "// plain line comment s\r\n/* S: a third block comment\r\n   with its own second line */\r\nfunc main {\r\n\tu := `third raw string, S\r\nits second line`\r\n\tprintln(u)\r\n}\r\n"},
	{"fmt_i", "i.wa", `
import "fmt"

type P :struct {
	x, y: int
}

func main {
	p := P{3, 4}
	fmt.Println("point", p.x, p.y)
	fmt.Println("sum", p.x+p.y)
}
`},
	// position constants (__LINE__, __FUNC__, __FILE__, __COLUMN__): predeclared
	// objects every type check of the process shares, with per-use values
	{"pos_v", "v.wa", "func main {\n\tprintln(__FUNC__, __LINE__)\n\tprintln(__LINE__, __COLUMN__)\n\thelperV()\n}\n\nfunc helperV {\n\tprintln(__FUNC__, __LINE__, __FILE__)\n\tprintln(__LINE__)\n}\n"},
	{"pos_w", "w.wa", "// w: the same constants on other lines, in other functions\n\n\nfunc helperW {\n\tprintln(__LINE__)\n\tprintln(__FUNC__, __LINE__, __FILE__)\n\n\tprintln(__LINE__,   __COLUMN__)\n}\n\nfunc main {\n\thelperW()\n\tprintln(__FUNC__, __LINE__)\n}\n"},
}

// callers may share a base configuration and clone it per call with their own
// target (the playground offers several targets); the tag slice has spare capacity
var baseCfg = func() *api.Config {
	c := api.DefaultConfig()
	c.BuilgTags = append(make([]string, 0, 8), "demo")
	return c
}()

var cfgVariants = []string{"default", "clone:js", "clone:unknown", "sizes:4/8"}

func cfgFor(v int) *api.Config {
	switch v {
	case 1:
		c := baseCfg.Clone()
		c.TargetOS = "js"
		return c
	case 2:
		c := baseCfg.Clone()
		c.TargetOS = "unknown"
		return c
	case 3:
		// the sizes the wa command line itself configures
		c := api.DefaultConfig()
		c.WaSizes.WordSize, c.WaSizes.MaxAlign = 4, 8
		return c
	}
	return api.DefaultConfig()
}

// programs whose set of source files depends on the target OS (build tags)
var taggedProgs = func() []int {
	var r []int
	for i, p := range corpus {
		if len(p.Name) > 6 && p.Name[:6] == "ostag_" {
			r = append(r, i)
		}
	}
	return r
}()

func progIndex(name string) int {
	for i, p := range corpus {
		if p.Name == name {
			return i
		}
	}
	panic(name)
}

var sizesProg = func() int {
	for i, p := range corpus {
		if p.Name == "sizes_n" {
			return i
		}
	}
	panic("sizes_n")
}()

var apis = []string{"RunCode", "BuildFile", "FormatCode", "GetCodeSyntax"}
