// Package c28: concurrent use of the public API (BuildFile, RunCode,
// FormatCode, GetCodeSyntax) under a simulated goroutine scheduler.
//
// Every simulated run is its own OS process (cold package-level state): the
// parent engine draws a scenario (callers, calls, PCT pre-emption points) and
// starts the worker binary in child mode; the child runs the callers as
// simulator tasks over the instrumented API path (yields at package-level
// variable accesses and function entries, simulator-aware mutexes and Once,
// map accesses reported to a happens-before monitor) and reports every call's
// result. Each result must equal the result of the same call run alone in a
// cold process.
package c28

import (
	"bytes"
	"crypto/sha256"
	"encoding/hex"
	"encoding/json"
	"flag"
	"fmt"
	"os"
	"os/exec"
	"path/filepath"
	"runtime/pprof"
	"sort"
	"strings"
	"testing"

	"verif/harness/sim"
	"verif/harness/tape"
	"wa-lang.org/wa/api"
	"wa-lang.org/wa/verifsim"
)

var T *testing.T

var (
	childIn  = flag.String("c28child", "", "child mode: scenario file")
	childOut = flag.String("c28out", "", "child mode: result file")
)

type Call struct {
	API  string `json:"api"`
	Prog int    `json:"prog"`
	Cfg  int    `json:"cfg"`
}

type Scenario struct {
	Tasks   [][]Call        `json:"tasks"`
	Points  []int64         `json:"points"`
	PointsW []int64         `json:"points_w"`
	SitePts map[int][]int64 `json:"site_points"`
	Return  []int64         `json:"return_after"`
	Targets []int           `json:"targets"`
	Monitor bool            `json:"monitor"`
}

type ChildOut struct {
	Results  [][]string      `json:"results"` // per task, per call
	Panics   []string        `json:"panics"`
	Deadlock string          `json:"deadlock"`
	Races    []verifsim.Race `json:"races"`
	Yields   int64           `json:"yields"`
	YieldsW  int64           `json:"yields_w"`
	SiteCnt  map[int]int64   `json:"site_counts"`
	Hits     int             `json:"hits"`
	HitSites []int           `json:"hit_sites"`
	Switches int             `json:"switches"`
	Adopted  int             `json:"adopted"`
	MapAcc   int64           `json:"map_accesses"`
	Shared   int64           `json:"shared_maps"`
	NonRepl  int64           `json:"nonreplayable_keys"`
}

func digest(b []byte) string { h := sha256.Sum256(b); return hex.EncodeToString(h[:10]) }

func doCall(c Call) string {
	p := corpus[c.Prog]
	switch c.API {
	case "RunCode":
		out, err := api.RunCode(cfgFor(c.Cfg), p.File, p.Src)
		return fmt.Sprintf("out=%q err=%v", out, err)
	case "BuildFile":
		mf, wat, fset, err := api.BuildFile(cfgFor(c.Cfg), p.File, p.Src)
		return fmt.Sprintf("main=%s wat=%d:%s fset=%d:%s err=%v", mf, len(wat), digest(wat), len(fset), digest(fset), err)
	case "FormatCode":
		s, err := api.FormatCode(p.File, p.Src)
		return fmt.Sprintf("fmt=%q err=%v", s, err)
	default:
		return "syntax=" + api.GetCodeSyntax(p.File, []byte(p.Src))
	}
}

// ChildMain runs one scenario in this (cold) process.
func ChildMain() {
	if pf := os.Getenv("VERIF_PROF"); pf != "" {
		if f, err := os.Create(pf); err == nil {
			pprof.StartCPUProfile(f)
			defer pprof.StopCPUProfile()
		}
	}
	childMain()
	pprof.StopCPUProfile()
	os.Exit(0)
}

func childMain() {
	b, err := os.ReadFile(*childIn)
	if err != nil {
		fmt.Fprintln(os.Stderr, "c28 child:", err)
		os.Exit(2)
	}
	var sc Scenario
	if err := json.Unmarshal(b, &sc); err != nil {
		fmt.Fprintln(os.Stderr, "c28 child:", err)
		os.Exit(2)
	}
	out := &ChildOut{Results: make([][]string, len(sc.Tasks))}
	plan := &verifsim.Plan{Points: sc.Points, PointsW: sc.PointsW, SitePoints: sc.SitePts, ReturnAfter: sc.Return}
	sched := &verifsim.Sched{MaxDecisions: 100000, TrustLast: true}
	seenHits := 0
	sched.Choose = func(n, cur int) int {
		if plan.Hits > seenHits {
			// a pre-emption point: switch to the target task
			k := 0
			if seenHits < len(sc.Targets) {
				k = sc.Targets[seenHits] % n
			}
			seenHits = plan.Hits
			if k == cur && n > 1 {
				k = (k + 1) % n
			}
			return k
		}
		if cur >= 0 {
			return cur
		}
		return 0
	}
	verifsim.MonReset(sc.Monitor)
	done := 0
	verifsim.Run(T, sched, func() {
		verifsim.InstallPlan(plan)
		for i := range sc.Tasks {
			i := i
			out.Results[i] = make([]string, len(sc.Tasks[i]))
			verifsim.Go(fmt.Sprintf("caller%d", i), func() {
				defer func() { done++ }()
				for j, c := range sc.Tasks[i] {
					func() {
						defer func() {
							if r := recover(); r != nil {
								// a call that panics when run alone may panic here too: the panic
								// is that call's result and is compared with the solo result
								out.Results[i][j] = fmt.Sprintf("PANIC: %v", r)
							}
						}()
						out.Results[i][j] = doCall(c)
					}()
				}
			})
		}
		for done < len(sc.Tasks) {
			verifsim.Drain()
		}
		verifsim.InstallPlan(nil)
	})
	out.Panics = append(out.Panics, sched.Panics...)
	out.Deadlock = sched.Deadlock
	out.Races = verifsim.Mon.Races
	out.Yields = plan.Count
	out.YieldsW = plan.CountW
	out.SiteCnt = plan.SiteCount
	out.Hits = plan.Hits
	out.HitSites = plan.Sites
	out.Switches = sched.Switches
	out.Adopted = sched.Adopted
	out.MapAcc = verifsim.Mon.Access
	out.Shared = verifsim.Mon.Shared
	out.NonRepl = verifsim.MapStats.NonReplayable
	ob, _ := json.Marshal(out)
	if err := os.WriteFile(*childOut, ob, 0o644); err != nil {
		fmt.Fprintln(os.Stderr, "c28 child:", err)
		os.Exit(2)
	}
}

// IsChild reports whether this process was started in child mode.
func IsChild() bool { return *childIn != "" }

// ---------------------------------------------------------------- parent

type site struct {
	ID   int    `json:"id"`
	Kind string `json:"kind"`
	Pos  string `json:"pos"`
	Fn   string `json:"func"`
}

type Engine struct {
	tier    string
	run     uint64
	haveRun bool
	solo    map[string]string        // call key -> solo result
	calib   map[string]int64         // scenario key -> yield count of the sequential run
	calibW  map[string]int64         // ... count of "interesting" yields (global writes, lock boundaries)
	calibS  map[string]map[int]int64 // ... executions per interesting site
	sites   []site
	tmp     string
	nchild  int
	exe     string
}

func New() sim.Engine {
	return &Engine{solo: map[string]string{}, calib: map[string]int64{}, calibW: map[string]int64{}, calibS: map[string]map[int]int64{}}
}

func (e *Engine) Setup(tier string) error {
	e.tier = tier
	if p := os.Getenv("VERIF_RW_DIR"); p != "" {
		if b, err := os.ReadFile(filepath.Join(p, "sites.json")); err == nil {
			json.Unmarshal(b, &e.sites)
		}
	}
	var err error
	e.exe, err = os.Executable()
	if err != nil {
		return err
	}
	e.tmp, err = os.MkdirTemp(sim.ScratchParent(), "verif-c28.")
	return err
}

func (e *Engine) Strides() []int    { return nil }
func (e *Engine) ShrinkBudget() int { return 40 }
func (e *Engine) Extra() map[string]any {
	os.RemoveAll(e.tmp)
	return map[string]any{"child_processes_started_by_this_worker": e.nchild, "instrumentation_sites": len(e.sites)}
}

func (e *Engine) sitePos(id int) string {
	if id >= 0 && id < len(e.sites) {
		return fmt.Sprintf("%s (%s)", e.sites[id].Pos, e.sites[id].Fn)
	}
	return fmt.Sprintf("site %d", id)
}

// child runs a scenario in a fresh process.
func (e *Engine) child(sc *Scenario) (*ChildOut, string) {
	e.nchild++
	in := filepath.Join(e.tmp, fmt.Sprintf("sc%d.json", e.nchild))
	outp := filepath.Join(e.tmp, fmt.Sprintf("out%d.json", e.nchild))
	b, _ := json.Marshal(sc)
	os.WriteFile(in, b, 0o644)
	defer os.Remove(in)
	defer os.Remove(outp)
	cmd := exec.Command(e.exe, "-c28child", in, "-c28out", outp)
	var eb bytes.Buffer
	cmd.Stdout, cmd.Stderr = &eb, &eb
	err := cmd.Run()
	ob, rerr := os.ReadFile(outp)
	if err != nil || rerr != nil {
		return nil, fmt.Sprintf("child process died (%v): %s", err, tail(eb.String(), 1500))
	}
	var co ChildOut
	if err := json.Unmarshal(ob, &co); err != nil {
		return nil, "child output unreadable: " + err.Error()
	}
	return &co, ""
}

func tail(s string, n int) string {
	if len(s) > n {
		return "..." + s[len(s)-n:]
	}
	return s
}

func callKey(c Call) string {
	k := c.API + ":" + corpus[c.Prog].Name
	if c.Cfg != 0 && (c.API == "RunCode" || c.API == "BuildFile") {
		k += "@" + cfgVariants[c.Cfg]
	}
	return k
}

type sample struct {
	Tasks  []string `json:"callers"`
	D      int      `json:"preemptions"`
	Yields int64    `json:"yield_points_in_sequential_run"`
	Sites  []string `json:"preempted_at,omitempty"`
	Log    []string `json:"log,omitempty"`
}

func (s *sample) LogLines() []string { return s.Log }

func (e *Engine) SetRun(seed, run uint64) { e.run, e.haveRun = run, true }

func (e *Engine) Run(t *tape.Tape, keep bool) *sim.Result {
	res := sim.NewResult()
	var log tape.Log
	log.Keep = keep
	nt := 2 + t.Pick(4, 3, 1)
	// scenario family: 0 = any mix; 1 = callers that clone one shared base
	// configuration with different targets, on programs whose package set depends
	// on the target (build tags)
	fam := t.Draw(5)
	cfgMix := fam == 2
	// family 3: callers with different word-size / alignment configurations, half
	// of them on the program whose output depends on it
	sizesMix := fam == 3
	sc := &Scenario{Monitor: true}
	sm := &sample{}
	res.Sample = sm
	var keyParts []string
	for i := 0; i < 4; i++ { // fixed tape layout: 4 task slots
		nc := 1 + t.Draw(2)
		var calls []Call
		for j := 0; j < 2; j++ {
			c := Call{API: apis[t.Pick(2, 6, 2, 1)], Prog: t.Draw(len(corpus)), Cfg: t.Pick(2, 1, 1)}
			tagged := taggedProgs[t.Draw(len(taggedProgs))]
			if cfgMix {
				c.Cfg = 1 + (i+j)%2
				if c.API == "FormatCode" || c.API == "GetCodeSyntax" {
					c.API = "BuildFile"
				}
				if (i+j)%2 == 0 || t.Draw(2) == 1 {
					c.Prog = tagged
				}
			}
			if sizesMix {
				c.Cfg = []int{0, 3}[(i+j)%2]
				if c.API == "FormatCode" || c.API == "GetCodeSyntax" {
					c.API = "RunCode"
				}
				if t.Draw(2) == 0 {
					c.Prog = sizesProg
				}
			} else if c.Cfg == 0 && c.API != "FormatCode" && c.API != "GetCodeSyntax" && t.Draw(6) == 0 {
				c.Cfg = 3
			}
			if c.API == "RunCode" && c.Cfg == 1 {
				c.Cfg = 0 // the embedded runner executes the default and the "unknown" targets
			}
			if j < nc {
				calls = append(calls, c)
			}
		}
		if i < nt {
			sc.Tasks = append(sc.Tasks, calls)
			var d []string
			for _, c := range calls {
				d = append(d, callKey(c))
			}
			sm.Tasks = append(sm.Tasks, strings.Join(d, ", "))
			keyParts = append(keyParts, strings.Join(d, ","))
		}
	}
	d := []int{0, 1, 2, 3, 5, 10}[t.Pick(1, 3, 3, 2, 2, 1)]
	// sweep mode (two draws, always consumed): a fixed two-caller scenario in which
	// ONE rarely executed lock-boundary site (the points right before Lock / right
	// after Unlock of mutexes taken a few times per call) is pre-empted at a chosen
	// occurrence and the interrupted caller comes back after a chosen fraction of
	// the other caller's work. The space is small (tens of combinations), so a
	// batch covers it almost completely instead of hoping to hit a one-statement
	// window by chance.
	sweep := t.Draw(2) == 1
	sweepPick := t.Draw(1 << 12)
	// decoded selectors of a sweep (from the tape draw, or - below - from the run index)
	stSweep := sweepPick%2 == 1
	pbSel := sweepPick / 2 % 2
	stVariant := sweepPick / 2 % 4
	stNested := sweepPick/8%2 == 0
	stPair := sweepPick / 16
	lockPair := sweepPick / 25
	if e.haveRun {
		// the sweeps are enumerations, so they are walked systematically: the run index
		// (not a random draw) selects sweep kind, scenario variant and (site,
		// occurrence) pair; with the workers' strided run indices every fourth worker
		// walks one variant's pairs in order. (The two draws above stay in the tape
		// layout; replay sets the run index from the replay file.)
		// of 16 consecutive run indices 8 are free scenarios, 4 lock-window sweeps and
		// 4 shared-storage sweeps; k counts the runs of one kind
		kindOf := [16]int{0, 1, 0, 2, 0, 1, 0, 2, 0, 1, 0, 2, 0, 1, 0, 2}
		pos := 0
		for i := 0; i < int(e.run%16); i++ {
			if kindOf[i] == kindOf[e.run%16] {
				pos++
			}
		}
		per := map[int]int{0: 8, 1: 4, 2: 4}[kindOf[e.run%16]]
		k := int(e.run/16)*per + pos
		sweep = kindOf[e.run%16] != 0
		stSweep = kindOf[e.run%16] == 2
		stVariant = k % 4
		stNested = (k/4)%2 == 0
		stPair = k / 8
		pbSel = k % 2
		lockPair = k / 2
	}
	storageSweep := sweep && stSweep
	if sweep {
		pa, pb := 0, 1+pbSel*2 // hello_a with strings_b or iface_d: few scenarios, so baselines are cached
		sc.Tasks = [][]Call{{{API: "BuildFile", Prog: pa}}, {{API: "BuildFile", Prog: pb}}}
		if storageSweep {
			// three callers: two windows per run (the first caller is pre-empted at one
			// site, the second at another, the third runs through)
			one := func(api, prog string) []Call { return []Call{{API: api, Prog: progIndex(prog)}} }
			switch stVariant {
			case 0:
				sc.Tasks = [][]Call{one("RunCode", "ints_o"), one("RunCode", "ints_p"), one("RunCode", "sizes_n")}
			case 1:
				sc.Tasks = [][]Call{one("RunCode", "ints_p"), one("RunCode", "sizes_n"), one("RunCode", "ints_o")}
			case 2:
				// longest source first: a scratch buffer that grows on demand is only shared
				// by later users whose demand is not larger
				sc.Tasks = [][]Call{one("FormatCode", "crlf_r"), one("FormatCode", "crlf_s"), one("FormatCode", "crlf_q")}
			case 3:
				sc.Tasks = [][]Call{one("RunCode", "crlf_r"), one("BuildFile", "crlf_s"), one("FormatCode", "crlf_q")}
			}
		}
		sm.Tasks = nil
		keyParts = []string{"sweep"}
		for _, tk := range sc.Tasks {
			sm.Tasks = append(sm.Tasks, callKey(tk[0]))
			keyParts = append(keyParts, callKey(tk[0]))
		}
		d = 1
		if storageSweep {
			res.Probes["shared_storage_window_sweep_runs"]++
		} else {
			res.Probes["lock_window_sweep_runs"]++
		}
	}
	sm.D = d
	var fracs []int
	var targets []int
	var classW []int
	for i := 0; i < 10; i++ {
		fracs = append(fracs, t.Draw(1<<16))
		targets = append(targets, t.Draw(8))
		classW = append(classW, t.Draw(3)) // 0 any yield, 1 any interesting yield, 2 a random occurrence of a random interesting site
	}
	var returns []int64
	for i := 0; i < 10; i++ {
		returns = append(returns, []int64{0, 3, 50, 2000, 60000, 400000}[t.Draw(6)])
	}
	log.Add(fmt.Sprintf("tasks=%v d=%d", sm.Tasks, d))
	fail := func(class, sig, detail string) *sim.Result {
		log.Add("VIOLATION " + class + " " + detail)
		res.Violation = &sim.Violation{Class: class, Signature: class + ":" + sig, Detail: detail}
		res.Digest = log.Digest()
		sm.Log = log.Lines
		return res
	}
	// solo baselines: each distinct call alone in a cold process
	for _, calls := range sc.Tasks {
		for _, c := range calls {
			k := callKey(c)
			if _, ok := e.solo[k]; ok {
				continue
			}
			co, trouble := e.child(&Scenario{Tasks: [][]Call{{c}}})
			if trouble != "" {
				res.Trouble = "solo baseline " + k + ": " + trouble
				return res
			}
			e.solo[k] = co.Results[0][0]
			res.Probes["solo_baselines"]++
		}
	}
	// sequential run of the scenario in one process: yield count for placing the
	// pre-emptions, and "sequential use equals solo use"
	skey := strings.Join(keyParts, "|")
	n, ok := e.calib[skey]
	if !ok {
		co, trouble := e.child(&Scenario{Tasks: sc.Tasks, Monitor: false})
		if trouble != "" {
			return fail("process_died", "sequential", "callers run one after the other in one process: "+trouble)
		}
		if oc := e.compare(sc, co); oc != "" {
			return fail("result_differs", "sequential:"+oc, "callers run one after the other in one process (no pre-emption): "+oc)
		}
		n = co.Yields
		e.calib[skey] = n
		e.calibW[skey] = co.YieldsW
		e.calibS[skey] = co.SiteCnt
		res.Probes["sequential_runs"]++
	}
	nw := e.calibW[skey]
	sm.Yields = n
	if d == 0 && !sweep {
		res.Steps++
		res.Digest = log.Digest()
		res.States = append(res.States, skey)
		return res
	}
	var pts, ptsW []int64
	sitePts := map[int][]int64{}
	if sweep {
		// rare lock sites of this scenario, in site order
		type pair struct {
			sid int
			k   int64
		}
		var pairs []pair
		var ids []int
		for sid := range e.calibS[skey] {
			ids = append(ids, sid)
		}
		sort.Ints(ids)
		for _, sid := range ids {
			cnt := e.calibS[skey][sid]
			if sid >= len(e.sites) {
				continue
			}
			if !storageSweep && e.sites[sid].Kind == "lock" && cnt <= 8 {
				for k := int64(1); k <= cnt; k++ {
					pairs = append(pairs, pair{sid, k})
				}
			}
			if storageSweep && strings.HasPrefix(e.sites[sid].Kind, "after_") && strings.HasSuffix(e.sites[sid].Kind, "_global_ref") {
				// first and last execution of the site
				pairs = append(pairs, pair{sid, 1})
				if cnt > 1 {
					pairs = append(pairs, pair{sid, cnt})
				}
			}
		}
		if storageSweep && stNested {
			// half of these sweeps go to the scratch-buffer idiom proper: the result of a
			// call that received the shared storage is consumed by the enclosing call
			var nested []pair
			for _, pr := range pairs {
				if e.sites[pr.sid].Kind == "after_call_with_global_ref" {
					nested = append(nested, pr)
				}
			}
			if len(nested) > 0 {
				pairs = nested
			}
		}
		if len(pairs) > 0 {
			pr := pairs[lockPair%len(pairs)]
			frac := []int64{2, 4, 5, 6, 7}[(lockPair/len(pairs)+lockPair)%5] // every pass gives each pair another fraction
			if storageSweep {
				pr = pairs[stPair%len(pairs)]
				frac = []int64{16, 16, 7}[(stPair/len(pairs))%3] // 16: the other caller finishes first
				res.Probes["shared_storage_window_pairs_in_scenario"] = len(pairs)
			}
			sitePts[pr.sid] = []int64{pr.k}
			returns = []int64{n / 2 * frac / 8}
			if storageSweep {
				// a second window at another site for the caller that runs next; nobody is
				// forced back: a pre-empted caller resumes when the others have finished
				pr2 := pairs[(stPair+1+len(pairs)/2)%len(pairs)]
				if pr2.sid != pr.sid {
					sitePts[pr2.sid] = []int64{pr2.k}
				}
				returns = nil
				targets = []int{1, 2, 0, 1, 2, 0, 1, 2, 0, 1}
				if frac == 7 {
					returns = []int64{n / 3 * 7 / 8}
				}
			}
			targets = []int{1, 0, 1, 0, 1, 0, 1, 0, 1, 0}
			if len(returns) > 0 {
				sm.Sites = append(sm.Sites, fmt.Sprintf("sweep: %s occurrence %d, return after %d yields", e.sitePos(pr.sid), pr.k, returns[0]))
			} else {
				var ss []string
				for sid, ks := range sitePts {
					ss = append(ss, fmt.Sprintf("%s occurrence %d", e.sitePos(sid), ks[0]))
				}
				sort.Strings(ss)
				sm.Sites = append(sm.Sites, "sweep: "+strings.Join(ss, " and ")+"; a pre-empted caller resumes when the others have finished")
			}
			if !storageSweep {
				res.Probes["lock_window_pairs_in_scenario"] = len(pairs)
			}
		}
		d = 0
	}
	var wsites []int
	for sid := range e.calibS[skey] {
		wsites = append(wsites, sid)
	}
	sort.Ints(wsites)
	for i := 0; i < d; i++ {
		if classW[i] == 2 && len(wsites) > 0 {
			// every interesting site is equally likely, however rarely it executes
			sid := wsites[fracs[i]%len(wsites)]
			cnt := e.calibS[skey][sid]
			k := 1 + int64(fracs[i]/len(wsites))%cnt
			sitePts[sid] = append(sitePts[sid], k)
			res.Probes["preemptions_placed_by_site"]++
			// lock boundaries are the classic windows: half of the site-placed points go there
			if fracs[i]%2 == 1 {
				var locks []int
				for _, x := range wsites {
					if x < len(e.sites) && e.sites[x].Kind == "lock" {
						locks = append(locks, x)
					}
				}
				if len(locks) > 0 {
					delete(sitePts, sid)
					sid = locks[(fracs[i]/2)%len(locks)]
					cnt = e.calibS[skey][sid]
					sitePts[sid] = append(sitePts[sid], 1+int64(fracs[i]/7)%cnt)
					res.Probes["preemptions_placed_at_lock_boundary_site"]++
				}
			}
		} else if classW[i] == 1 && nw > 0 {
			// placed over the interesting yields only: writes of package-level
			// variables and the boundaries of critical sections
			ptsW = append(ptsW, 1+int64(fracs[i])*nw/(1<<16))
			res.Probes["preemptions_placed_at_write_or_lock_boundary"]++
		} else {
			pts = append(pts, 1+int64(fracs[i])*n/(1<<16))
		}
	}
	sort.Slice(pts, func(i, j int) bool { return pts[i] < pts[j] })
	sort.Slice(ptsW, func(i, j int) bool { return ptsW[i] < ptsW[j] })
	sc.Points = pts
	sc.PointsW = ptsW
	sc.SitePts = sitePts
	sc.Return = returns
	sc.Targets = targets
	co, trouble := e.child(sc)
	res.Steps++
	if trouble != "" {
		return fail("process_died", "concurrent", trouble)
	}
	res.Faults["preemptions"] += co.Hits
	res.Faults["context_switches"] += co.Switches
	res.Probes["map_accesses_monitored"] += int(co.MapAcc)
	res.Probes["maps_touched_by_two_tasks"] += int(co.Shared)
	res.Probes["adopted_goroutines"] += co.Adopted
	res.Probes["nonreplayable_keys"] += int(co.NonRepl)
	for _, s := range co.HitSites {
		sm.Sites = append(sm.Sites, e.sitePos(s))
	}
	log.Add(fmt.Sprintf("hits=%d switches=%d sites=%v", co.Hits, co.Switches, co.HitSites))
	if len(co.Panics) > 0 {
		return fail("panic", shortSig(co.Panics[0]), strings.Join(co.Panics, "; ")+"; pre-empted at: "+strings.Join(sm.Sites, "; "))
	}
	if co.Deadlock != "" {
		return fail("deadlock", "sched", co.Deadlock)
	}
	if oc := e.compare(sc, co); oc != "" {
		return fail("result_differs", oc[:strings.Index(oc+" ", " ")], oc+"; pre-empted at: "+strings.Join(sm.Sites, "; "))
	}
	if len(co.Races) > 0 {
		r := co.Races[0]
		return fail("map_race", e.sitePos(r.SiteA)+"~"+e.sitePos(r.SiteB), fmt.Sprintf("%s on one map by two callers without happens-before order: %s and %s (a real process can die with 'fatal error: concurrent map %s')", r.Kind, e.sitePos(r.SiteA), e.sitePos(r.SiteB), map[string]string{"write/write": "writes", "read/write": "read and map write"}[r.Kind]))
	}
	res.Nontrivial = co.Switches > 0
	res.States = append(res.States, skey)
	res.Digest = log.Digest()
	sm.Log = log.Lines
	return res
}

func shortSig(s string) string {
	if i := strings.Index(s, "panic:"); i >= 0 {
		s = s[i:]
	}
	if len(s) > 80 {
		s = s[:80]
	}
	return s
}

// compare checks every call's result against its solo result.
func (e *Engine) compare(sc *Scenario, co *ChildOut) string {
	for i, calls := range sc.Tasks {
		for j, c := range calls {
			want := e.solo[callKey(c)]
			got := ""
			if i < len(co.Results) && j < len(co.Results[i]) {
				got = co.Results[i][j]
			}
			if got != want {
				return fmt.Sprintf("%s (caller %d, call %d) returned %s; run alone it returns %s", callKey(c), i, j, clip(got), clip(want))
			}
		}
	}
	return ""
}

func clip(s string) string {
	if len(s) > 300 {
		return s[:300] + "..."
	}
	return s
}
