// Package c10: the Wa heap allocator (both WAT copies, executed on wazero)
// under a simulated environment: memory.grow that may be refused at any call,
// a client that fills every byte it was given, seeded malloc/free histories
// and a configuration swarm. The oracle re-derives the whole heap layout from
// linear memory after every operation.
package c10

import (
	"encoding/binary"
	"fmt"
	"sort"
	"strings"

	"verif/harness/sim"
	"verif/harness/tape"
	"wa-lang.org/wa/verifbridge/mallocb"
)

type Engine struct {
	tier string
	run  uint64
}

func (e *Engine) SetRun(seed, run uint64) { e.run = run }

func New() sim.Engine { return &Engine{} }

func (e *Engine) Setup(tier string) error { e.tier = tier; return nil }
func (e *Engine) Strides() []int          { return []int{opDraws} }

const opDraws = 6

type block struct {
	addr   int32
	req    int32
	serial uint32
}

type outcome struct{ class, detail string }

type sample struct {
	Variant string         `json:"allocator"`
	Cfg     mallocb.Config `json:"config"`
	Ops     []string       `json:"ops"`
	Log     []string       `json:"log,omitempty"`
}

func (s *sample) LogLines() []string { return s.Log }

type run struct {
	h       *mallocb.Heap
	cfg     mallocb.Config
	variant int
	live    []block // in allocation order
	serial  uint32
	mem     []byte
	inited  bool
	// layout derived by the last check
	tiles     map[int32]int32
	fixedLen  [4]int
	ringSizes []int32
	ringLen   int
	base      int32
	hptr, top int32
	res       *sim.Result
	refuseNow bool
}

var classes = [4]int32{24, 32, 48, 80}

func align8(n int32) int32 { return (n + 7) / 8 * 8 }

// need is the payload size the allocator looks for, per the size-class scheme
// the property describes.
func (r *run) need(size int32) (int32, int) {
	a := align8(size)
	if r.cfg.HeapLFixedCap == 0 {
		if a == 0 {
			a = 8 // smallest allocation granule: a zero request is not "satisfied" by a zero-size free block
		}
		return a, -1
	}
	switch {
	case a > 80:
		if a <= 128 {
			return 128, -1
		}
		return a, -1
	case a > 48:
		return 80, 3
	case a > 32:
		return 48, 2
	case a > 24:
		return 32, 1
	}
	return 24, 0
}

func pat(serial uint32, i int32) byte { return byte(serial*131 + uint32(i)*7 + 0x5a) }

const edge = 4096

func (r *run) fill(b block) {
	m := r.mem
	if b.req <= 2*edge {
		for i := int32(0); i < b.req; i++ {
			m[int64(uint32(b.addr))+int64(i)] = pat(b.serial, i)
		}
		return
	}
	for i := int32(0); i < edge; i++ {
		m[int64(uint32(b.addr))+int64(i)] = pat(b.serial, i)
		j := b.req - 1 - i
		m[int64(uint32(b.addr))+int64(j)] = pat(b.serial, j)
	}
}

func (r *run) intact(b block) (int32, bool) {
	m := r.mem
	if int64(uint32(b.addr))+int64(b.req) > int64(len(m)) {
		return 0, false
	}
	if b.req <= 2*edge {
		for i := int32(0); i < b.req; i++ {
			if m[int64(uint32(b.addr))+int64(i)] != pat(b.serial, i) {
				return i, false
			}
		}
		return 0, true
	}
	for i := int32(0); i < edge; i++ {
		if m[int64(uint32(b.addr))+int64(i)] != pat(b.serial, i) {
			return i, false
		}
		j := b.req - 1 - i
		if m[int64(uint32(b.addr))+int64(j)] != pat(b.serial, j) {
			return j, false
		}
	}
	return 0, true
}

func (r *run) le32(off int32) (int32, bool) {
	o := int64(uint32(off))
	if o+4 > int64(len(r.mem)) {
		return 0, false
	}
	return int32(binary.LittleEndian.Uint32(r.mem[o:])), true
}

// check re-derives the heap layout from memory and checks the invariants.
func (r *run) check() *outcome {
	r.mem = r.h.Mem()
	base := r.h.Global("__heap_base")
	hptr := r.h.Global("__heap_ptr")
	top := r.h.Global("__heap_top")
	r.base, r.hptr, r.top = base, hptr, top
	if !r.inited {
		return nil
	}
	memsz := int64(len(r.mem))
	// addresses are unsigned 32-bit quantities (heap_top may be exactly 2^31)
	ubase, uhptr, utop := int64(uint32(base)), int64(uint32(hptr)), int64(uint32(top))
	if !(ubase+48 <= uhptr && uhptr <= utop && utop <= memsz) {
		return &outcome{"heap_bounds", fmt.Sprintf("heap_base+48=%d heap_ptr=%d heap_top=%d memory=%d bytes: not ordered", base+48, hptr, top, memsz)}
	}
	// tiling
	tiles := map[int32]int32{}
	up := ubase + 48
	for up < uhptr {
		p := int32(uint32(up))
		if up+8 > uhptr {
			return &outcome{"tiling", fmt.Sprintf("block header at %d crosses heap_ptr %d", up, uhptr)}
		}
		size, _ := r.le32(p)
		if size < 0 || size%8 != 0 || up+8+int64(size) > uhptr {
			return &outcome{"tiling", fmt.Sprintf("block at %d has size field %d: walking block headers from heap_base+48 does not tile the heap up to heap_ptr %d", up, size, uhptr)}
		}
		tiles[p] = size
		up += 8 + int64(size)
	}
	r.tiles = tiles
	liveHdr := map[int32]bool{}
	for _, b := range r.live {
		size, ok := tiles[b.addr-8]
		if !ok {
			return &outcome{"tiling", fmt.Sprintf("live block %d (requested %d) is not one of the blocks tiling the heap", b.addr, b.req)}
		}
		if size < b.req {
			return &outcome{"too_small", fmt.Sprintf("live block %d: header says %d bytes, %d were requested", b.addr, size, b.req)}
		}
		if off, ok := r.intact(b); !ok {
			return &outcome{"clobbered", fmt.Sprintf("live block %d (requested %d): client byte at offset %d was modified by the allocator", b.addr, b.req, off)}
		}
		liveHdr[b.addr-8] = true
	}
	// free lists
	onList := map[int32]int{}
	limit := len(tiles) + 2
	if r.cfg.HeapLFixedCap > 0 {
		for i, cls := range classes {
			head := base + int32(8*i)
			cnt, _ := r.le32(head)
			q, _ := r.le32(head + 4)
			n := 0
			for q != 0 {
				size, ok := tiles[q]
				if !ok {
					return &outcome{"free_list", fmt.Sprintf("l%d list: node %d is not a heap block", cls, q)}
				}
				if liveHdr[q] {
					return &outcome{"free_list", fmt.Sprintf("l%d list: node %d is a live block", cls, q+8)}
				}
				if size != cls {
					return &outcome{"free_list", fmt.Sprintf("l%d list: node %d has size %d", cls, q, size)}
				}
				onList[q]++
				n++
				if n > limit {
					return &outcome{"free_list", fmt.Sprintf("l%d list does not terminate", cls)}
				}
				q, _ = r.le32(q + 4)
			}
			if int32(n) != cnt {
				return &outcome{"free_list", fmt.Sprintf("l%d list: stored count %d, actual length %d", cls, cnt, n)}
			}
			r.fixedLen[i] = n
		}
	}
	head := base + 32
	r.ringSizes = r.ringSizes[:0]
	q, ok := r.le32(head + 4)
	n := 0
	for ok && q != head {
		size, isTile := tiles[q]
		if !isTile {
			return &outcome{"free_list", fmt.Sprintf("general list: node %d is not a heap block", q)}
		}
		if liveHdr[q] {
			return &outcome{"free_list", fmt.Sprintf("general list: node %d is a live block", q+8)}
		}
		onList[q]++
		r.ringSizes = append(r.ringSizes, size)
		n++
		if n > limit {
			return &outcome{"free_list", "general list does not return to its head"}
		}
		q, ok = r.le32(q + 4)
	}
	r.ringLen = n
	for a, size := range tiles {
		c := onList[a]
		if liveHdr[a] {
			continue // c == 0 checked above
		}
		if c != 1 {
			return &outcome{"tiling", fmt.Sprintf("block at %d (size %d) is not live and is on %d free lists: every byte must belong to exactly one live or free block", a, size, c)}
		}
	}
	return nil
}

func (r *run) stateKey() string {
	bucket := func(n int) int {
		switch {
		case n < 4:
			return n
		case n < 16:
			return 4 + n/4
		case n < 128:
			return 8 + n/16
		}
		return 16
	}
	return fmt.Sprintf("f%d.%d.%d.%d r%d l%d p%d c%d", bucket(r.fixedLen[0]), bucket(r.fixedLen[1]), bucket(r.fixedLen[2]), bucket(r.fixedLen[3]),
		bucket(r.ringLen), bucket(len(r.live)), len(r.mem)/65536, r.cfg.HeapLFixedCap)
}

var boundary = []int32{0, 1, 7, 8, 9, 23, 24, 25, 31, 32, 33, 47, 48, 49, 79, 80, 81, 127, 128, 129}

func genSize(cat, val int, maxBytes int64) int32 {
	var s int64
	switch cat {
	case 0, 6:
		s = int64(boundary[val%len(boundary)])
	case 1, 7:
		s = int64(val % 200)
	case 2:
		s = int64(1)<<(val%17) + int64(val/17%3) - 1
	case 3:
		s = int64(1+val%3)*65536 + []int64{-24, -16, -8, 0, 8}[val/3%5]
	case 4:
		s = 129 + int64(val%4000)
	case 5:
		s = int64(1) << (16 + val%6)
	}
	if s < 0 {
		s = 0
	}
	if s > maxBytes {
		s = s % (maxBytes + 1)
	}
	return int32(s)
}

func (e *Engine) Run(t *tape.Tape, keep bool) *sim.Result {
	res := sim.NewResult()
	var log tape.Log
	log.Keep = keep
	r := &run{res: res}
	// configuration swarm
	r.variant = t.Draw(2)
	pages := int32(1 + t.Draw(4))
	maxp := []int32{10, pages, pages + 1, 16, 64, pages + 3}[t.Draw(6)]
	if maxp < pages {
		maxp = pages
	}
	stack := []int32{8 << 12, 1024, 2048}[t.Draw(3)]
	var base int32
	bs := t.Draw(6)
	bv := int32(t.Draw(64))
	switch bs {
	case 0:
		base = 10 << 12
	case 1:
		base = align8(stack + 8)
	case 2:
		base = pages*65536 - 48 - 8
	case 3:
		base = pages*65536 - 48 - 8*(1+bv)
	case 4:
		base = 65536
	case 5:
		base = pages*65536 - 4096
	}
	if base <= stack || base+48 >= pages*65536 {
		base = align8(stack + 8)
	}
	capv := []int32{100, 0, 1, 2, 3, 8, 64}[t.Draw(7)]
	refuseDen := []int{0, 3, 8, 32}[t.Draw(4)]
	// rare: a heap that may grow to 1-2 GiB, with requests up to 2^30
	// (expensive: a run with GiB-sized memories takes 10-60 s in the vendored wazero,
	// whose memory.grow re-allocates and copies) - thorough tier only, one run in 3000
	hd := t.Draw(3000)
	huge := hd == 2999 && e.tier == "thorough"
	if huge {
		pages = 1
		maxp = []int32{32768, 16385, 16500, 24000}[t.Draw(4)]
		if base+48 >= pages*65536 || base <= stack {
			base = 10 << 12
		}
		res.Probes["huge_heap_runs"]++
	}
	r.cfg = mallocb.Config{MemoryPages: pages, MemoryPagesMax: maxp, StackPtr: stack, HeapBase: base, HeapLFixedCap: capv}
	nops := 0
	switch t.Pick(3, 4, 3) {
	case 0:
		nops = t.Range(1, 8)
	case 1:
		nops = t.Range(1, 60)
	default:
		nops = t.Range(1, 400)
	}
	if huge && nops > 8 {
		nops = 1 + nops%8
	}
	mallocPct := []int{50, 65, 80, 35, 95}[t.Draw(5)]
	flipAt := t.Draw(nops + 1)
	flipPct := []int{50, 20, 10, 80}[t.Draw(4)]

	h, err := mallocb.New(r.variant, r.cfg, func(pages, cur, max uint32) bool {
		return r.refuseNow
	})
	if err != nil {
		res.Trouble = "cannot build allocator module: " + err.Error()
		return res
	}
	defer h.Close()
	r.h = h
	r.inited = r.variant == mallocb.VariantEmbedded
	sm := &sample{Variant: mallocb.VariantNames[r.variant], Cfg: r.cfg}
	res.Sample = sm
	log.Add(fmt.Sprintf("variant=%d cfg=%+v refuseDen=%d nops=%d", r.variant, r.cfg, refuseDen, nops))
	if capv == 0 {
		res.Probes["fixed_lists_disabled_runs"]++
	}
	fail := func(oc *outcome, op string, sig string) *sim.Result {
		log.Add("VIOLATION " + oc.class + ": " + oc.detail)
		fx := "on"
		if capv == 0 {
			fx = "off"
		}
		res.Violation = &sim.Violation{Class: oc.class, Signature: fmt.Sprintf("%s:%s:fixed=%s", oc.class, sig, fx),
			Detail: fmt.Sprintf("%s cfg=%+v after %s: %s", mallocb.VariantNames[r.variant], r.cfg, op, oc.detail)}
		res.Digest = log.Digest()
		sm.Log = log.Lines
		return res
	}
	if oc := r.check(); oc != nil {
		return fail(oc, "initialisation", "init")
	}
	states := map[string]bool{}
	lastFreed := int32(0)
	for i := 0; i < nops; i++ {
		kind := t.Draw(100)
		cat := t.Draw(8)
		val := t.Draw(1 << 16)
		pol := t.Draw(4)
		idx := t.Draw(1 << 16)
		refuse := refuseDen > 0 && t.Chance(1, refuseDen)
		pct := mallocPct
		if i >= flipAt {
			pct = flipPct
		}
		doMalloc := kind < pct || len(r.live) == 0
		// snapshot of the pre-operation layout (from the previous check)
		preTiles := len(r.tiles)
		preRing := r.ringLen
		preFixed := r.fixedLen
		preHptr, preTop := r.hptr, r.top
		preMem := len(r.mem)
		if !r.inited { // lazily initialised copy: values as init will set them
			preHptr, preTop, preMem = base+48, pages*65536, int(pages)*65536
		}
		if doMalloc {
			size := genSize(cat, val, int64(maxp)*65536)
			if huge {
				size = []int32{1 << 30, 1<<30 - 8, 1 << 29, 1<<29 + 8, 1 << 28, 1<<30 - 65536, 3 << 28, 100}[val%8]
			}
			r.refuseNow = refuse
			g0, gr0, gf0 := h.GrowCalls, h.GrowRefused, h.GrowFailed
			ptr, err := h.Malloc(size)
			r.refuseNow = false
			op := fmt.Sprintf("malloc(%d)", size)
			szSig := "n"
			if size == 0 {
				szSig = "0"
			}
			if err != nil {
				if h.OutOfFuel() {
					return fail(&outcome{"hang", "allocator loop did not terminate within the step bound"}, op, "malloc("+szSig+")")
				}
				return fail(&outcome{"trap", firstLine(err.Error())}, op, "malloc("+szSig+")")
			}
			r.inited = true
			grew := h.GrowCalls - g0
			if h.GrowRefused > gr0 {
				res.Faults["grow_refused"] += h.GrowRefused - gr0
			}
			if h.GrowFailed > gf0 {
				res.Faults["grow_at_max"] += h.GrowFailed - gf0
			}
			if h.GrowOK > 0 && grew > 0 && h.GrowRefused == gr0 && h.GrowFailed == gf0 {
				res.Probes["grow_ok"]++
			}
			log.Add(fmt.Sprintf("%s=%d grow=%d", op, ptr, grew))
			if keep || len(sm.Ops) < 40 {
				sm.Ops = append(sm.Ops, fmt.Sprintf("%s=%d", op, ptr))
			}
			need, cls := r.need(size)
			if ptr == 0 {
				res.Probes["malloc_returned_0"]++
				// failure must be justified
				if cls >= 0 && preFixed[cls] > 0 {
					return fail(&outcome{"unjustified_failure", fmt.Sprintf("malloc(%d) returned 0 although the l%d list holds %d blocks", size, classes[cls], preFixed[cls])}, op, "malloc("+szSig+")")
				}
				for _, s := range r.ringSizes {
					if s >= need {
						return fail(&outcome{"unjustified_failure", fmt.Sprintf("malloc(%d) returned 0 although the general free list holds a block of %d bytes (needs %d)", size, s, need)}, op, "malloc("+szSig+")")
					}
				}
				blk := int64(need) + 8
				if int64(uint32(preHptr))+blk < int64(uint32(preTop)) {
					return fail(&outcome{"unjustified_failure", fmt.Sprintf("malloc(%d) returned 0 although %d bytes fit between heap_ptr %d and heap_top %d", size, blk, preHptr, preTop)}, op, "malloc("+szSig+")")
				}
				minPages := (int64(uint32(preHptr))+blk-int64(uint32(preTop)))/65536 + 1
				cur := int64(preMem / 65536)
				switch {
				case h.GrowRefused > gr0:
					// justified: the environment refused to grow
				case cur+minPages > int64(maxp):
					// justified: cannot grow within the configured maximum
				case grew == 0:
					return fail(&outcome{"unjustified_failure", fmt.Sprintf("malloc(%d) returned 0 without trying to grow memory (%d pages, max %d, %d more needed)", size, cur, maxp, minPages)}, op, "malloc("+szSig+")")
				default:
					return fail(&outcome{"grow_overask", fmt.Sprintf("malloc(%d) returned 0: memory has %d of max %d pages and %d more page(s) would satisfy the request, but the allocator asked for more and was refused", size, cur, maxp, minPages)}, op, "malloc("+szSig+")")
				}
				if oc := r.check(); oc != nil {
					return fail(oc, op, "malloc("+szSig+")=0")
				}
				if r.hptr != preHptr || len(r.tiles) != preTiles || (preTop != r.top && h.GrowOK == 0) {
					return fail(&outcome{"failed_malloc_changed_heap", fmt.Sprintf("heap_ptr %d->%d, blocks %d->%d", preHptr, r.hptr, preTiles, len(r.tiles))}, op, "malloc("+szSig+")=0")
				}
				continue
			}
			// returned pointer: immediate checks against the model
			r.mem = h.Mem()
			hp := h.Global("__heap_ptr")
			if ptr%8 != 0 {
				return fail(&outcome{"bad_pointer", fmt.Sprintf("%s returned %d: not 8-byte aligned", op, ptr)}, op, "malloc("+szSig+")")
			}
			if int64(uint32(ptr))-8 < int64(uint32(base))+48 || int64(uint32(ptr))+int64(size) > int64(uint32(hp)) || int64(uint32(ptr))+int64(size) > int64(len(r.mem)) {
				return fail(&outcome{"bad_pointer", fmt.Sprintf("%s returned %d: outside the heap region [%d,%d) / memory %d (list headers occupy [%d,%d))", op, ptr, base+48+8, hp, len(r.mem), base, base+48)}, op, "malloc("+szSig+")")
			}
			for _, b := range r.live {
				if int64(ptr) < int64(b.addr)+int64(max32(b.req, 1)) && int64(b.addr) < int64(ptr)+int64(max32(size, 1)) {
					return fail(&outcome{"overlap", fmt.Sprintf("%s returned %d which overlaps live block %d (requested %d)", op, ptr, b.addr, b.req)}, op, "malloc("+szSig+")")
				}
			}
			r.serial++
			nb := block{ptr, size, r.serial}
			r.live = append(r.live, nb)
			r.fill(nb)
			if oc := r.check(); oc != nil {
				return fail(oc, op, "malloc("+szSig+")")
			}
			switch {
			case int64(uint32(ptr))-8 >= int64(uint32(preHptr)):
				res.Probes["bump_allocation"]++
			case cls >= 0 && r.fixedLen[cls] < preFixed[cls]:
				res.Probes["reuse_fixed"]++
			case len(r.tiles) > preTiles:
				res.Probes["reuse_split"]++
			default:
				res.Probes["reuse_exact_fit"]++
			}
		} else {
			var k int
			switch pol {
			case 0:
				k = len(r.live) - 1
			case 1:
				k = 0
			case 2:
				k = idx % len(r.live)
			default: // address-adjacent to the last freed block: drives coalescing
				k = 0
				best := int64(1) << 40
				for j, b := range r.live {
					d := int64(b.addr) - int64(lastFreed)
					if d < 0 {
						d = -d
					}
					if d < best {
						best, k = d, j
					}
				}
			}
			b := r.live[k]
			r.live = append(r.live[:k], r.live[k+1:]...)
			op := fmt.Sprintf("free(%d)", b.addr)
			err := h.Free(b.addr)
			if err != nil {
				if h.OutOfFuel() {
					return fail(&outcome{"hang", "allocator loop did not terminate within the step bound"}, op, "free")
				}
				return fail(&outcome{"trap", firstLine(err.Error())}, op, "free")
			}
			lastFreed = b.addr
			log.Add(op)
			if keep || len(sm.Ops) < 40 {
				sm.Ops = append(sm.Ops, op)
			}
			if oc := r.check(); oc != nil {
				return fail(oc, op, "free")
			}
			sumPre, sumPost := 0, 0
			for i := range preFixed {
				sumPre += preFixed[i]
				sumPost += r.fixedLen[i]
			}
			switch {
			case sumPost == sumPre+1:
				res.Probes["free_to_fixed"]++
			case sumPost < sumPre:
				res.Probes["fixed_list_flush"]++
			case r.ringLen == preRing+1:
				res.Probes["free_no_join"]++
			case r.ringLen == preRing:
				res.Probes["free_join_one"]++
			case r.ringLen == preRing-1:
				res.Probes["free_join_both"]++
			}
		}
		res.Steps++
		states[r.stateKey()] = true
	}
	for s := range states {
		res.States = append(res.States, s)
	}
	sort.Strings(res.States)
	res.Nontrivial = res.Steps >= 2
	res.Digest = log.Digest()
	sm.Log = log.Lines
	return res
}

func max32(a, b int32) int32 {
	if a > b {
		return a
	}
	return b
}

func firstLine(s string) string {
	if i := strings.IndexByte(s, '\n'); i >= 0 {
		return s[:i]
	}
	return s
}
