#!/bin/bash
# mkov.sh <out.json>: overlay JSON for ad-hoc builds (bridge + accessor files only)
python3 - "$1" <<'PY'
import json,os,sys
ov={}
for root,d,files in os.walk('/verif/overlay'):
    for f in files:
        if f.endswith('.go'):
            p=os.path.join(root,f); ov['/repo/'+os.path.relpath(p,'/verif/overlay')]=p
json.dump({"Replace":ov},open(sys.argv[1],'w'))
PY
