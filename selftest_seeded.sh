#!/bin/bash
# selftest_seeded.sh [ids...]: sensitivity self-test. For every seeded change under seeded/<id>/ a scratch
# worktree of /repo (under /tmp, removed afterwards) gets the patch applied and the quick check of the
# property it breaks is run against it through VERIF_REPO - /repo itself is never touched. Expected: exit 1
# with a VIOLATION line for every change (see DESIGN.md section 12 for the one exception, C11c -> C10).
# Evidence and replays written by these runs describe broken trees: run this from a snapshot (vp run), or
# re-run the quick checks on the clean tree afterwards.
set -u
cd "$(dirname "$(readlink -f "$0")")"
export VERIF_DIR=$PWD
ids=${*:-$(ls seeded)}
for id in $ids; do
  prop=$(python3 -c "import json;print(json.load(open('seeded/$id/meta.json'))['property'])")
  [ "$id" = C11c ] && prop=C10
  wt=$(mktemp -d /tmp/verif-seeded.XXXXXX)
  rmdir $wt
  git -C /repo worktree add --detach $wt HEAD -q || { echo "$id: cannot create worktree"; continue; }
  if ! git -C $wt apply $PWD/seeded/$id/patch.diff; then echo "$id: PATCH DOES NOT APPLY"; git -C /repo worktree remove --force $wt; continue; fi
  out=$(VERIF_REPO=$wt ./vcheck.sh $prop quick 2>&1); rc=$?
  nv=$(echo "$out" | grep -c '^VIOLATION')
  [ "$id" = C28h ] && echo "  (C28h: expected exit 0 - a recorded miss: store/load of a field of a shared predeclared object, DESIGN 12 wave 10)"
  [ "$id" = C26d ] && echo "  (C26d: expected exit 0 - not a violation under the reading the check adopted, DESIGN 12)"
  echo "$id ($prop): exit=$rc violations=$nv :: $(echo "$out" | grep -v '^VIOLATION\|^KNOWN' | tail -1 | cut -c1-120)"
  git -C /repo worktree remove --force $wt
done
git -C /repo worktree prune
