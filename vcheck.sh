#!/bin/bash
# vcheck.sh <id> [quick|thorough|replay <file>]
# Rebuilds the coordinator if needed and runs the check against /repo's working tree.
set -u
cd "$(dirname "$(readlink -f "$0")")" || exit 2
export VERIF_DIR=$PWD
export GOFLAGS=-mod=mod GOPROXY=off GOSUMDB=off GOTOOLCHAIN=local CGO_ENABLED=0
export PATH=$PATH:/usr/local/bin:/usr/local/go/bin
id=${1:?property id}
tier=${2:-${VERIF_TIER:-quick}}
shift; shift 2>/dev/null
if [ ! -x bin/vcheck ] || [ -n "$(find harness -newer bin/vcheck -name '*.go' -print -quit 2>/dev/null)" ]; then
  ./setup.sh >&2 || { echo "vcheck.sh: setup failed" >&2; exit 2; }
fi
exec bin/vcheck "$id" "$tier" "$@"
