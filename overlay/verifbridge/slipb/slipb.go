// Package slipb re-exports internal/3rdparty/slip for the verification
// harness (injected with go build -overlay; not part of the repository).
package slipb

import (
	"io"

	"wa-lang.org/wa/internal/3rdparty/slip"
)

type Reader = slip.Reader
type Writer = slip.Writer
type SlipMuxReader = slip.SlipMuxReader
type SlipMuxWriter = slip.SlipMuxWriter

const (
	END     = slip.END
	ESC     = slip.ESC
	ESC_END = slip.ESC_END
	ESC_ESC = slip.ESC_ESC

	FRAME_COAP = slip.FRAME_COAP
)

func NewReader(r io.Reader) *Reader               { return slip.NewReader(r) }
func NewWriter(w io.Writer) *Writer               { return slip.NewWriter(w) }
func NewSlipMuxReader(r io.Reader) *SlipMuxReader { return slip.NewSlipMuxReader(r) }
func NewSlipMuxWriter(w io.Writer) *SlipMuxWriter { return slip.NewSlipMuxWriter(w) }
func IsIpFrame(f byte) bool                       { return slip.IsIpFrame(f) }
