// Package compb exposes the compile pipeline that `wa build` runs
// (loader -> compiler_wat -> optional watstrip -> wat2wasm) without its file
// writes and os.Exit calls (verification harness; injected with go build
// -overlay, not part of the repository).
package compb

import (
	"wa-lang.org/wa/internal/backends/compiler_wat"
	"wa-lang.org/wa/internal/config"
	"wa-lang.org/wa/internal/loader"
	"wa-lang.org/wa/internal/wat/watutil"
	"wa-lang.org/wa/internal/wat/watutil/watstrip"
)

// Compile builds the program at path (a .wa/.wz file or a wa.mod directory).
func Compile(path, targetOS string, optimize bool) (wat, wasm []byte, err error) {
	cfg := config.DefaultConfig()
	if targetOS != "" {
		cfg.TargetOS = targetOS
	}
	prog, err := loader.LoadProgram(cfg, path)
	if err != nil {
		return nil, nil, err
	}
	out, err := compiler_wat.New().Compile(prog)
	if err != nil {
		return nil, nil, err
	}
	wat = []byte(out)
	if optimize {
		wat, err = watstrip.WatStrip(path, wat)
		if err != nil {
			return nil, nil, err
		}
	}
	wasm, err = watutil.Wat2Wasm(path, wat)
	return wat, wasm, err
}

// CompileSource builds a single source text.
func CompileSource(filename, src, targetOS string, optimize bool) (wat, wasm []byte, err error) {
	cfg := config.DefaultConfig()
	if targetOS != "" {
		cfg.TargetOS = targetOS
	}
	prog, err := loader.LoadProgramFile(cfg, filename, src)
	if err != nil {
		return nil, nil, err
	}
	out, err := compiler_wat.New().Compile(prog)
	if err != nil {
		return nil, nil, err
	}
	wat = []byte(out)
	if optimize {
		wat, err = watstrip.WatStrip(filename, wat)
		if err != nil {
			return nil, nil, err
		}
	}
	wasm, err = watutil.Wat2Wasm(filename, wat)
	return wat, wasm, err
}
