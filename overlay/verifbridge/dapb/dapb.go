// Package dapb re-exports internal/3rdparty/go-dap for the verification
// harness (injected with go build -overlay; not part of the repository).
package dapb

import (
	"bufio"
	"io"

	dap "wa-lang.org/wa/internal/3rdparty/go-dap"
)

type Message = dap.Message
type ErrorResponse = dap.ErrorResponse

func Ctors() (req, resp, ev map[string]func() Message) { return dap.VerifCtors() }

func WriteProtocolMessage(w io.Writer, m Message) error { return dap.WriteProtocolMessage(w, m) }
func ReadProtocolMessage(r *bufio.Reader) (Message, error) {
	return dap.ReadProtocolMessage(r)
}
func DecodeProtocolMessage(b []byte) (Message, error) { return dap.DecodeProtocolMessage(b) }
