// Package lspb re-exports the language server for the verification harness
// (injected with go build -overlay; not part of the repository).
package lspb

import (
	"io"

	"wa-lang.org/wa/internal/lsp"
)

type Server = lsp.LSPServer

func NewServer(in io.ReadCloser, out io.WriteCloser) *Server { return lsp.NewVerifServer(in, out) }
