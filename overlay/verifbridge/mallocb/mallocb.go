// Package mallocb instantiates the two copies of the Wa heap allocator for the
// verification harness, with memory.grow routed through a host function the
// simulator owns (injected with go build -overlay; not part of the repository).
package mallocb

import (
	"bytes"
	"context"
	"fmt"
	"io/fs"
	"strings"
	"text/template"

	"wa-lang.org/wa/internal/3rdparty/wazero"
	"wa-lang.org/wa/internal/3rdparty/wazero/api"
	"wa-lang.org/wa/internal/waroot/malloc"
	"wa-lang.org/wa/internal/wat/watutil"
	wasrc "wa-lang.org/wa/waroot/src"
)

type Config struct {
	MemoryPages    int32
	MemoryPagesMax int32
	StackPtr       int32
	HeapBase       int32
	HeapLFixedCap  int32
}

// GrowHook decides whether a memory.grow of `pages` (current size `cur`, in
// pages) is refused by the environment. Returning true refuses it.
type GrowHook func(pages, cur, max uint32) (refuse bool)

type compiled struct {
	rt  wazero.Runtime
	cm  wazero.CompiledModule
	ctx context.Context
}

type Heap struct {
	c                    *compiled
	m                    api.Module
	fnMalloc             api.Function
	fnFree               api.Function
	fnSetFuel, fnGetFuel api.Function
	Hook                 GrowHook
	Max                  uint32
	// per-call observations
	GrowCalls   int
	GrowRefused int
	GrowFailed  int
	GrowOK      int
}

const VariantEmbedded = 0 // internal/waroot/malloc/malloc.wat
const VariantRuntime = 1  // waroot/src/runtime/heap_malloc.wat.ws

var VariantNames = []string{"internal/waroot/malloc/malloc.wat", "waroot/src/runtime/heap_malloc.wat.ws"}

// Source returns the WAT text of the module for a variant and configuration.
func Source(variant int, cfg Config) (string, int, error) {
	var buf bytes.Buffer
	imp := "\t(import \"verif\" \"refuse\" (func $verif.refuse (param i32) (result i32)))\n" +
		"\t(import \"verif\" \"result\" (func $verif.result (param i32)))\n"
	switch variant {
	case VariantEmbedded:
		buf.WriteString("(module $malloc\n")
		buf.WriteString(imp)
		if err := template.Must(template.New("wat").Parse(malloc.VerifWat())).Execute(&buf, &cfg); err != nil {
			return "", 0, err
		}
		buf.WriteString("\n)")
	case VariantRuntime:
		b, err := fs.ReadFile(wasrc.GetStdFS(), "runtime/heap_malloc.wat.ws")
		if err != nil {
			return "", 0, err
		}
		fmt.Fprintf(&buf, "(module $malloc\n%s", imp)
		fmt.Fprintf(&buf, "\t(memory $memory %d %d)\n\t(export \"memory\" (memory $memory))\n", cfg.MemoryPages, cfg.MemoryPagesMax)
		fmt.Fprintf(&buf, "\t(global $__stack_ptr (mut i32) (i32.const %d))\n\t(global $__heap_base i32 (i32.const %d))\n\t(global $__heap_lfixed_cap i32 (i32.const %d))\n", cfg.StackPtr, cfg.HeapBase, cfg.HeapLFixedCap)
		for _, g := range []string{"__stack_ptr", "__heap_base", "__heap_ptr", "__heap_top", "__heap_l128_freep", "__heap_lfixed_cap"} {
			fmt.Fprintf(&buf, "\t(export %q (global $%s))\n", g, g)
		}
		buf.Write(b)
		buf.WriteString("\n\t(func $verif.malloc (export \"wa_malloc\") (param i32) (result i32) local.get 0 call $runtime.malloc)\n")
		buf.WriteString("\t(func $verif.free (export \"wa_free\") (param i32) local.get 0 call $runtime.free)\n")
		buf.WriteString("\n)")
	default:
		return "", 0, fmt.Errorf("unknown variant %d", variant)
	}
	s := buf.String()
	n := strings.Count(s, "memory.grow")
	s = strings.ReplaceAll(s, "memory.grow", "call $verif.grow")
	// Deterministic step bound: every loop header ticks a fuel counter that the
	// harness refills before each call; running out traps.
	var out strings.Builder
	for _, line := range strings.SplitAfter(s, "\n") {
		out.WriteString(line)
		f := strings.Fields(line)
		if len(f) > 0 && (f[0] == "loop" || f[0] == "(loop") {
			out.WriteString("\t\t\tcall $verif.tick\n")
		}
	}
	s = out.String()
	i := strings.LastIndex(s, ")")
	s = s[:i] + fuelFuncs + ")"
	return s, n, nil
}

const fuelFuncs = `
	(global $verif.fuel (mut i32) (i32.const 100000000))
	(func $verif.tick
		global.get $verif.fuel
		i32.const 1
		i32.sub
		global.set $verif.fuel
		global.get $verif.fuel
		i32.const 0
		i32.lt_s
		if unreachable end
	)
	;; the real memory.grow instruction, gated by the simulator's decision
	(func $verif.grow (param $pages i32) (result i32)
		(local $r i32)
		local.get $pages
		call $verif.refuse
		if (result i32)
			i32.const -1
		else
			local.get $pages
			memory.grow
			local.tee $r
			call $verif.result
			local.get $r
		end
	)
	(func $verif.set_fuel (export "verif_set_fuel") (param i32) local.get 0 global.set $verif.fuel)
	(func $verif.get_fuel (export "verif_get_fuel") (result i32) global.get $verif.fuel)
`

// Fuel is the number of allocator loop iterations allowed per call.
const Fuel = 4000000

var cache = map[string]*compiled{}

type heapKey struct{}

// New builds (or takes from the per-process cache) the module for the
// configuration and instantiates it.
func New(variant int, cfg Config, hook GrowHook) (*Heap, error) {
	key := fmt.Sprintf("%d/%+v", variant, cfg)
	c := cache[key]
	if c == nil {
		src, _, err := Source(variant, cfg)
		if err != nil {
			return nil, err
		}
		wasm, err := watutil.Wat2Wasm("malloc.wat", []byte(src))
		if err != nil {
			return nil, fmt.Errorf("wat2wasm: %v", err)
		}
		ctx := context.Background()
		rt := wazero.NewRuntime(ctx)
		env := rt.NewHostModuleBuilder("env")
		env = env.NewFunctionBuilder().WithFunc(func(ctx context.Context, m api.Module, v int32) {}).Export("print_i32")
		env = env.NewFunctionBuilder().WithFunc(func(ctx context.Context, m api.Module, a, b int32) {}).Export("print_i32_i32")
		if _, err := env.Instantiate(ctx, rt); err != nil {
			return nil, err
		}
		vm := rt.NewHostModuleBuilder("verif").NewFunctionBuilder().WithFunc(func(ctx context.Context, m api.Module, pages uint32) uint32 {
			h, _ := ctx.Value(heapKey{}).(*Heap)
			if h == nil {
				return 1
			}
			h.GrowCalls++
			cur := m.Memory().Size(ctx) / 65536
			if h.Hook != nil && h.Hook(pages, cur, h.Max) {
				h.GrowRefused++
				return 1
			}
			return 0
		}).Export("refuse").NewFunctionBuilder().WithFunc(func(ctx context.Context, m api.Module, r int32) {
			h, _ := ctx.Value(heapKey{}).(*Heap)
			if h == nil {
				return
			}
			if r < 0 {
				h.GrowFailed++
			} else {
				h.GrowOK++
			}
		}).Export("result")
		if _, err := vm.Instantiate(ctx, rt); err != nil {
			return nil, err
		}
		cm, err := rt.CompileModule(ctx, wasm)
		if err != nil {
			return nil, fmt.Errorf("compile: %v", err)
		}
		if len(cache) > 600 {
			for k, v := range cache {
				v.rt.Close(ctx)
				delete(cache, k)
			}
		}
		c = &compiled{rt: rt, cm: cm, ctx: ctx}
		cache[key] = c
	}
	h := &Heap{c: c, Hook: hook, Max: uint32(cfg.MemoryPagesMax)}
	ctx := context.WithValue(c.ctx, heapKey{}, h)
	m, err := c.rt.InstantiateModule(ctx, c.cm, wazero.NewModuleConfig().WithName(""))
	if err != nil {
		return nil, fmt.Errorf("instantiate: %v", err)
	}
	h.m = m
	h.fnMalloc = m.ExportedFunction("wa_malloc")
	h.fnFree = m.ExportedFunction("wa_free")
	h.fnSetFuel = m.ExportedFunction("verif_set_fuel")
	h.fnGetFuel = m.ExportedFunction("verif_get_fuel")
	if h.fnMalloc == nil || h.fnFree == nil {
		m.Close(c.ctx)
		return nil, fmt.Errorf("wa_malloc / wa_free not exported")
	}
	return h, nil
}

func (h *Heap) callCtx() (context.Context, context.CancelFunc) {
	ctx := context.WithValue(h.c.ctx, heapKey{}, h)
	h.fnSetFuel.Call(ctx, Fuel)
	return ctx, func() {}
}

// OutOfFuel reports whether the last call ran out of loop iterations.
func (h *Heap) OutOfFuel() bool {
	r, err := h.fnGetFuel.Call(h.c.ctx)
	return err == nil && api.DecodeI32(r[0]) < 0
}

// Malloc returns the pointer, or an error if the call trapped / hung.
func (h *Heap) Malloc(size int32) (int32, error) {
	ctx, cancel := h.callCtx()
	defer cancel()
	r, err := h.fnMalloc.Call(ctx, api.EncodeI32(size))
	if err != nil {
		return 0, err
	}
	return api.DecodeI32(r[0]), nil
}

func (h *Heap) Free(ptr int32) error {
	ctx, cancel := h.callCtx()
	defer cancel()
	_, err := h.fnFree.Call(ctx, api.EncodeI32(ptr))
	return err
}

func (h *Heap) Global(name string) int32 {
	g := h.m.ExportedGlobal(name)
	if g == nil {
		panic("global not exported: " + name)
	}
	return int32(uint32(g.Get(h.c.ctx)))
}

// Mem returns a view of the whole linear memory (stale after a grow).
func (h *Heap) Mem() []byte {
	mem := h.m.Memory()
	b, _ := mem.Read(h.c.ctx, 0, mem.Size(h.c.ctx))
	return b
}

func (h *Heap) Close() { h.m.Close(h.c.ctx) }
