// Package wab ("Wa object world") compiles a Wa program with the real
// pipeline, routes $runtime.malloc / $runtime.free / $runtime.HeapAlloc of the
// generated WAT through host functions owned by the simulator, and runs it on
// the vendored wazero (verification harness; injected with go build -overlay,
// not part of the repository).
package wab

import (
	"context"
	"fmt"
	"regexp"
	"strings"

	"wa-lang.org/wa/api"
	"wa-lang.org/wa/internal/3rdparty/wazero"
	wzapi "wa-lang.org/wa/internal/3rdparty/wazero/api"
	"wa-lang.org/wa/internal/backends/compiler_wat"
	"wa-lang.org/wa/internal/config"
	"wa-lang.org/wa/internal/loader"
	"wa-lang.org/wa/internal/wat/watutil"
	wawazero "wa-lang.org/wa/internal/wazero"
	wasrc "wa-lang.org/wa/waroot/src"
)

// BuildWat compiles Wa source to WAT with the real front end and backend.
func BuildWat(filename, src string) ([]byte, error) {
	cfg := api.DefaultConfig()
	cfg.TargetOS = "unknown"
	_, wat, _, err := api.BuildFile(cfg, filename, src)
	return wat, err
}

const Fuel = 200000000

// MemoryPages is the initial memory size given to instrumented programs.
const MemoryPages = 256

var reMalloc = regexp.MustCompile(`\(func \$runtime\.malloc \(param \$size i32\) \(result i32\)`)
var reFree = regexp.MustCompile(`\(func \$runtime\.free \(param \$ptr i32\)`)
var reHeapAlloc = regexp.MustCompile(`\(func \$runtime\.HeapAlloc \(export "runtime\.HeapAlloc"\) \(param \$nbytes i32\) \(result i32\)`)

const wrappers = `
(global $verif.fuel (mut i32) (i32.const 2000000000))
(func $verif.set_fuel (export "verif_set_fuel") (param i32) local.get 0 global.set $verif.fuel)
(func $verif.get_fuel (export "verif_get_fuel") (result i32) global.get $verif.fuel)
(func $verif.heap_base (export "verif_heap_base") (result i32) global.get $__heap_base)
(func $verif.heap_ptr (export "verif_heap_ptr") (result i32) global.get $__heap_ptr)
(func $runtime.malloc (param $size i32) (result i32)
	(local $p i32)
	local.get $size
	call $verif.pre_malloc
	local.tee $p
	if (result i32)
		local.get $p
	else
		local.get $size
		call $runtime.malloc.real
		local.tee $p
		local.get $size
		call $verif.post_malloc
		local.get $p
	end
)
(func $runtime.free (param $ptr i32)
	local.get $ptr
	call $verif.pre_free
	if
		local.get $ptr
		call $runtime.free.real
	end
)
(func $runtime.HeapAlloc (export "runtime.HeapAlloc") (param $nbytes i32) (result i32)
	(local $p i32)
	local.get $nbytes
	call $runtime.HeapAlloc.real
	local.tee $p
	local.get $nbytes
	call $verif.post_heapalloc
	local.get $p
)
`

const imports = `
(import "verif_sim" "pre_malloc" (func $verif.pre_malloc (param i32) (result i32)))
(import "verif_sim" "post_malloc" (func $verif.post_malloc (param i32) (param i32)))
(import "verif_sim" "pre_free" (func $verif.pre_free (param i32) (result i32)))
(import "verif_sim" "post_heapalloc" (func $verif.post_heapalloc (param i32) (param i32)))
`

// Instrument applies the allocator seam and the loop fuel to compiler output.
func Instrument(wat []byte) ([]byte, error) {
	s := string(wat)
	// a smaller initial memory makes instantiation cheap; the real allocator
	// still grows it on demand (memory.grow), the host allocator owns what is there
	if n := strings.Count(s, "(memory $memory 1024)"); n == 1 {
		s = strings.Replace(s, "(memory $memory 1024)", fmt.Sprintf("(memory $memory %d)", MemoryPages), 1)
	}
	for _, x := range []struct {
		re   *regexp.Regexp
		name string
		repl string
	}{
		{reMalloc, "$runtime.malloc", `(func $runtime.malloc.real (param $size i32) (result i32)`},
		{reFree, "$runtime.free", `(func $runtime.free.real (param $ptr i32)`},
		{reHeapAlloc, "$runtime.HeapAlloc", `(func $runtime.HeapAlloc.real (param $nbytes i32) (result i32)`},
	} {
		loc := x.re.FindAllStringIndex(s, -1)
		if len(loc) != 1 {
			return nil, fmt.Errorf("seam: expected exactly one definition of %s in compiler output, found %d", x.name, len(loc))
		}
		s = s[:loc[0][0]] + x.repl + s[loc[0][1]:]
	}
	// inside the real allocator, recursion must stay inside the real allocator
	// (there is none today); calls elsewhere keep the public names and reach the wrappers.
	var out strings.Builder
	out.Grow(len(s) + len(s)/8)
	for _, line := range strings.SplitAfter(s, "\n") {
		out.WriteString(line)
		f := strings.Fields(line)
		if len(f) > 0 && (f[0] == "loop" || f[0] == "(loop") {
			out.WriteString("global.get $verif.fuel i32.const 1 i32.sub global.set $verif.fuel global.get $verif.fuel i32.eqz if unreachable end\n")
		}
	}
	s = out.String()
	// imports must come first: right after "(module ..." header line
	i := strings.Index(s, "(module")
	if i < 0 {
		return nil, fmt.Errorf("seam: no (module in compiler output")
	}
	j := i + strings.Index(s[i:], "\n") + 1
	s = s[:j] + imports + s[j:]
	k := strings.LastIndex(s, ")")
	s = s[:k] + wrappers + s[k:]
	return []byte(s), nil
}

// Build runs the whole pipeline: Wa source -> WAT (real compiler) -> seam ->
// wasm (real assembler) -> compiled module (vendored wazero).
func Build(filename, src string) (*Compiled, error) {
	wat, err := BuildWat(filename, src)
	if err != nil {
		return nil, fmt.Errorf("compile: %v", err)
	}
	wat, err = Instrument(wat)
	if err != nil {
		return nil, err
	}
	wasm, err := Wat2Wasm(wat)
	if err != nil {
		return nil, fmt.Errorf("wat2wasm: %v", err)
	}
	c, err := Compile(wasm)
	if err != nil {
		return nil, err
	}
	m := reHeapBase.FindSubmatch(wat)
	if m == nil {
		c.Close()
		return nil, fmt.Errorf("seam: no $__heap_base global in compiler output")
	}
	fmt.Sscan(string(m[1]), &c.HeapBase)
	c.WatBytes, c.WasmBytes = len(wat), len(wasm)
	return c, nil
}

var reHeapBase = regexp.MustCompile(`\(global \$__heap_base i32 \(i32\.const (\d+)\)\)`)

func Wat2Wasm(wat []byte) ([]byte, error) { return watutil.Wat2Wasm("driver.wat", wat) }

// Host is the simulator side of the allocator seam. mem is the live linear memory.
type Host interface {
	PreMalloc(mem []byte, size uint32) uint32
	PostMalloc(mem []byte, ptr, size uint32)
	PreFree(mem []byte, ptr uint32) uint32
	PostHeapAlloc(mem []byte, ptr, nbytes uint32)
}

type hostKey struct{}

type Compiled struct {
	HeapBase  uint32
	WatBytes  int
	WasmBytes int
	ctx       context.Context
	rt        wazero.Runtime
	cm        wazero.CompiledModule
}

func view(ctx context.Context, m wzapi.Module) []byte {
	mem := m.Memory()
	b, _ := mem.Read(ctx, 0, mem.Size(ctx))
	return b
}

// addVerifHost installs the allocator seam's host module.
func addVerifHost(ctx context.Context, rt wazero.Runtime) error {
	h := func(ctx context.Context) Host { x, _ := ctx.Value(hostKey{}).(Host); return x }
	b := rt.NewHostModuleBuilder("verif_sim").
		NewFunctionBuilder().WithFunc(func(ctx context.Context, m wzapi.Module, size uint32) uint32 {
		return h(ctx).PreMalloc(view(ctx, m), size)
	}).Export("pre_malloc").
		NewFunctionBuilder().WithFunc(func(ctx context.Context, m wzapi.Module, ptr, size uint32) {
		h(ctx).PostMalloc(view(ctx, m), ptr, size)
	}).Export("post_malloc").
		NewFunctionBuilder().WithFunc(func(ctx context.Context, m wzapi.Module, ptr uint32) uint32 {
		return h(ctx).PreFree(view(ctx, m), ptr)
	}).Export("pre_free").
		NewFunctionBuilder().WithFunc(func(ctx context.Context, m wzapi.Module, ptr, n uint32) {
		h(ctx).PostHeapAlloc(view(ctx, m), ptr, n)
	}).Export("post_heapalloc")
	_, err := b.Instantiate(ctx, rt)
	return err
}

// TestPackage is a std package compiled together with its tests
// (cfg.UnitTest), with the allocator seam, ready to run test functions on
// fresh instances through the repository's own wazero wrapper (which provides
// the syscall_js host functions, so output is captured).
type TestPackage struct {
	Path     string
	Tests    []string // exported test function names (wasm names)
	HeapBase uint32
	isMain   bool
	m        *wawazero.Module
}

// StdTestPackages lists the std packages that have tests.
func StdTestPackages() []string { return wasrc.GetStdTestPkgList() }

func BuildTestPackage(pkgpath string) (*TestPackage, error) {
	cfg := config.DefaultConfig()
	cfg.UnitTest = true
	prog, err := loader.LoadProgram(cfg, pkgpath)
	if err != nil {
		return nil, err
	}
	mainPkg := prog.Pkgs[prog.Manifest.MainPkg]
	if mainPkg == nil || mainPkg.TestInfo == nil || len(mainPkg.TestInfo.Tests) == 0 {
		return nil, nil // no tests
	}
	out, err := compiler_wat.New().Compile(prog)
	if err != nil {
		return nil, err
	}
	wat, err := Instrument([]byte(out))
	if err != nil {
		return nil, err
	}
	wasm, err := Wat2Wasm(wat)
	if err != nil {
		return nil, err
	}
	tp := &TestPackage{Path: pkgpath}
	if m := reHeapBase.FindSubmatch(wat); m != nil {
		fmt.Sscan(string(m[1]), &tp.HeapBase)
	}
	for _, t := range mainPkg.TestInfo.Tests {
		if t.OutputPanic {
			continue // expected-panic tests end in a trap by design
		}
		tp.Tests = append(tp.Tests, strings.ReplaceAll(mainPkg.Pkg.Path()+"."+t.Name, "/", "$"))
	}
	tp.m, err = wawazero.VerifBuildModule("unittest://"+pkgpath, wasm, prog.Fset.ToJson(), addVerifHost)
	if err != nil {
		return nil, err
	}
	return tp, nil
}

// BuildProgram compiles the program at path (a .wa/.wz file or a wa.mod
// directory) for the default target with the allocator seam; its one "test" is
// the program's main function.
func BuildProgram(path string) (*TestPackage, error) {
	cfg := config.DefaultConfig()
	prog, err := loader.LoadProgram(cfg, path)
	if err != nil {
		return nil, err
	}
	out, err := compiler_wat.New().Compile(prog)
	if err != nil {
		return nil, err
	}
	wat, err := Instrument([]byte(out))
	if err != nil {
		return nil, err
	}
	wasm, err := Wat2Wasm(wat)
	if err != nil {
		return nil, err
	}
	tp := &TestPackage{Path: path, isMain: true}
	if m := reHeapBase.FindSubmatch(wat); m != nil {
		fmt.Sscan(string(m[1]), &tp.HeapBase)
	}
	tp.Tests = []string{prog.Manifest.MainPkg + ".main"}
	tp.m, err = wawazero.VerifBuildModule(path, wasm, prog.Fset.ToJson(), addVerifHost)
	if err != nil {
		return nil, err
	}
	return tp, nil
}

// Run executes one test function on a fresh instance under the given host.
func (tp *TestPackage) Run(test string, h Host) (stdout string, errText string) {
	tp.m.VerifReset(context.WithValue(context.Background(), hostKey{}, h))
	var so, se []byte
	var err error
	if tp.isMain {
		// everything printed from instantiation on (package initialisers included)
		so, se, err = tp.m.RunMain(test)
	} else {
		_, so, se, err = tp.m.RunFunc(test)
	}
	if err != nil {
		errText = err.Error()
		if i := strings.IndexByte(errText, '\n'); i >= 0 {
			errText = errText[:i]
		}
	}
	return string(so) + string(se), errText
}

func (tp *TestPackage) Mem() []byte { return tp.m.VerifMemory() }
func (tp *TestPackage) Close()      { tp.m.Close() }

func Compile(wasm []byte) (*Compiled, error) {
	ctx := context.Background()
	rt := wazero.NewRuntime(ctx)
	h := func(ctx context.Context) Host { x, _ := ctx.Value(hostKey{}).(Host); return x }
	b := rt.NewHostModuleBuilder("verif_sim").
		NewFunctionBuilder().WithFunc(func(ctx context.Context, m wzapi.Module, size uint32) uint32 {
		return h(ctx).PreMalloc(view(ctx, m), size)
	}).Export("pre_malloc").
		NewFunctionBuilder().WithFunc(func(ctx context.Context, m wzapi.Module, ptr, size uint32) {
		h(ctx).PostMalloc(view(ctx, m), ptr, size)
	}).Export("post_malloc").
		NewFunctionBuilder().WithFunc(func(ctx context.Context, m wzapi.Module, ptr uint32) uint32 {
		return h(ctx).PreFree(view(ctx, m), ptr)
	}).Export("pre_free").
		NewFunctionBuilder().WithFunc(func(ctx context.Context, m wzapi.Module, ptr, n uint32) {
		h(ctx).PostHeapAlloc(view(ctx, m), ptr, n)
	}).Export("post_heapalloc")
	if _, err := b.Instantiate(ctx, rt); err != nil {
		return nil, err
	}
	cm, err := rt.CompileModule(ctx, wasm)
	if err != nil {
		rt.Close(ctx)
		return nil, err
	}
	return &Compiled{ctx: ctx, rt: rt, cm: cm}, nil
}

func (c *Compiled) Close() { c.rt.Close(c.ctx) }

type Instance struct {
	c    *Compiled
	ctx  context.Context
	m    wzapi.Module
	fuel wzapi.Function
	getf wzapi.Function
	fns  map[string]wzapi.Function
}

// Instantiate creates a fresh instance (fresh memory, globals) and runs _start.
func (c *Compiled) Instantiate(h Host) (*Instance, error) {
	ctx := context.WithValue(c.ctx, hostKey{}, h)
	m, err := c.rt.InstantiateModule(ctx, c.cm, wazero.NewModuleConfig().WithName("").WithStartFunctions())
	if err != nil {
		return nil, err
	}
	in := &Instance{c: c, ctx: ctx, m: m, fns: map[string]wzapi.Function{}}
	in.fuel = m.ExportedFunction("verif_set_fuel")
	in.getf = m.ExportedFunction("verif_get_fuel")
	if _, err := in.Call("_start"); err != nil {
		m.Close(ctx)
		return nil, fmt.Errorf("_start: %v", err)
	}
	return in, nil
}

func (in *Instance) Call(name string, args ...uint64) ([]uint64, error) {
	f := in.fns[name]
	if f == nil {
		f = in.m.ExportedFunction(name)
		if f == nil {
			return nil, fmt.Errorf("function %q is not exported", name)
		}
		in.fns[name] = f
	}
	in.fuel.Call(in.ctx, Fuel)
	return f.Call(in.ctx, args...)
}

func (in *Instance) OutOfFuel() bool {
	r, err := in.getf.Call(in.ctx)
	return err == nil && int32(uint32(r[0])) <= 0
}

// HeapBase is the program's __heap_base.
func (in *Instance) HeapBase() uint32 {
	r, err := in.m.ExportedFunction("verif_heap_base").Call(in.ctx)
	if err != nil {
		return 0
	}
	return uint32(r[0])
}

// RealHeapPtr is the real allocator's bump pointer (0 before its lazy init).
func (in *Instance) RealHeapPtr() uint32 {
	r, err := in.m.ExportedFunction("verif_heap_ptr").Call(in.ctx)
	if err != nil {
		return 0
	}
	return uint32(r[0])
}

func (in *Instance) Mem() []byte { return view(in.ctx, in.m) }

func (in *Instance) Close() { in.m.Close(in.ctx) }
