//go:build go1.21

package verifsim

import (
	"fmt"
	"runtime"
	"sync"
	"sync/atomic"
	"testing"
	"testing/synctest"
)

// Token scheduler. The whole simulated system runs inside one
// testing/synctest bubble. Rewritten code calls Yield at every scheduling
// point; Yield parks the calling goroutine on its own channel (a durable
// block). The scheduler goroutine waits until every goroutine in the bubble is
// durably blocked (synctest.Wait), lists the parked runnable tasks in task-id
// order, lets the choice function pick one, and releases it. So which task
// makes progress next is always the simulator's decision.

type task struct {
	id      int
	name    string
	wake    chan struct{}
	parked  bool
	site    int
	waitMu  any  // non-nil: blocked on this simulated mutex
	drain   bool // runnable only when no other task is
	done    bool
	adopted bool
}

type Sched struct {
	mu           sync.Mutex
	tasks        []*task
	byG          map[uint64]*task
	TrustLast    bool                     // the system has no inter-task wakeups (no channels): skip the goroutine-id lookup
	Choose       func(n int, cur int) int // pick among n runnable tasks; cur = index of the task that ran last, or -1
	Trace        func(decision int, task int, name string, site int)
	last         *task
	Decisions    int
	MaxDecisions int
	Switches     int
	Adopted      int
	Deadlock     string
	Panics       []string
	heldBy       map[any]*task
	running      int32
	Overlap      int32 // tripwire: more than one task released at a time
	stop         bool
	SitesHit     map[int]int
}

var cur *Sched

// Active reports whether a simulation is running (hooks are no-ops otherwise).
func Active() bool { return cur != nil }

func goid() uint64 {
	var buf [64]byte
	n := runtime.Stack(buf[:], false)
	// "goroutine 123 ["
	var id uint64
	for _, c := range buf[len("goroutine "):n] {
		if c < '0' || c > '9' {
			break
		}
		id = id*10 + uint64(c-'0')
	}
	return id
}

func (s *Sched) me() *task {
	if s.TrustLast && s.last != nil {
		// no task is ever woken by another one in this system: the running task is
		// the one the scheduler released last
		return s.last
	}
	g := goid()
	s.mu.Lock()
	t := s.byG[g]
	if t == nil {
		t = &task{id: len(s.tasks), name: "adopted", wake: make(chan struct{}), adopted: true}
		s.tasks = append(s.tasks, t)
		s.byG[g] = t
		s.Adopted++
	}
	s.mu.Unlock()
	return t
}

// Go starts fn as a new simulated task. Outside a simulation it is `go fn()`.
func Go(name string, fn func()) {
	s := cur
	if s == nil {
		go fn()
		return
	}
	s.mu.Lock()
	t := &task{id: len(s.tasks), name: name, wake: make(chan struct{})}
	s.tasks = append(s.tasks, t)
	parent := s.byG[goid()]
	s.mu.Unlock()
	if parent != nil {
		hbFork(parent.id, t.id)
	}
	go func() {
		s.mu.Lock()
		s.byG[goid()] = t
		s.mu.Unlock()
		defer func() {
			if r := recover(); r != nil {
				if _, ok := r.(stopSignal); !ok {
					s.mu.Lock()
					s.Panics = append(s.Panics, fmt.Sprintf("task %d (%s): panic: %v", t.id, t.name, r))
					s.mu.Unlock()
				}
			}
			s.mu.Lock()
			t.done = true
			s.mu.Unlock()
			atomic.AddInt32(&s.running, -1)
		}()
		// a new task starts parked: it runs when the scheduler picks it
		atomic.AddInt32(&s.running, 1)
		s.park(t, -1)
		fn()
	}()
}

type stopSignal struct{}

func (s *Sched) park(t *task, site int) {
	s.mu.Lock()
	t.parked = true
	t.site = site
	s.mu.Unlock()
	atomic.AddInt32(&s.running, -1)
	<-t.wake
	if s.stop {
		panic(stopSignal{})
	}
}

// Yield is a scheduling point.
func Yield(site int) {
	s := cur
	if s == nil {
		return
	}
	t := s.me()
	if s.SitesHit != nil {
		s.mu.Lock()
		s.SitesHit[site]++
		s.mu.Unlock()
	}
	s.park(t, site)
}

// Drain parks the caller until no other task is runnable: everything delivered
// so far has been processed as far as it can be.
func Drain() {
	s := cur
	if s == nil {
		return
	}
	t := s.me()
	s.mu.Lock()
	t.drain = true
	s.mu.Unlock()
	s.park(t, -2)
}

// Lock / Unlock / RLock / RUnlock: simulator-aware mutex operations. A task
// that cannot take the mutex is marked blocked on it and parks; it never blocks
// inside sync.Mutex (which synctest does not treat as a durable block).
type locker interface {
	TryLock() bool
	Unlock()
}

func Lock(m locker, site int) {
	s := cur
	if s == nil {
		type l interface{ Lock() }
		m.(l).Lock()
		return
	}
	if plan != nil {
		YieldW(site)
	} else {
		Yield(site)
	}
	t := s.me()
	for !m.TryLock() {
		s.mu.Lock()
		t.waitMu = m
		s.mu.Unlock()
		s.park(t, site)
	}
	hbAcquire(t, m)
}

func Unlock(m locker, site int) {
	if s := cur; s != nil {
		hbRelease(s.me(), m)
	}
	m.Unlock()
	s := cur
	if s == nil {
		return
	}
	s.mu.Lock()
	for _, t := range s.tasks {
		if t.waitMu == any(m) {
			t.waitMu = nil
		}
	}
	s.mu.Unlock()
	if plan != nil {
		YieldW(site) // the window right after a critical section
	}
}

type rlocker interface {
	TryRLock() bool
	RUnlock()
}

func RLock(m rlocker, site int) {
	s := cur
	if s == nil {
		type l interface{ RLock() }
		m.(l).RLock()
		return
	}
	if plan != nil {
		YieldW(site)
	} else {
		Yield(site)
	}
	t := s.me()
	for !m.TryRLock() {
		s.mu.Lock()
		t.waitMu = m
		s.mu.Unlock()
		s.park(t, site)
	}
	hbAcquire(t, m)
}

func RUnlock(m rlocker, site int) {
	if s := cur; s != nil {
		hbRelease(s.me(), m)
	}
	m.RUnlock()
	s := cur
	if s == nil {
		return
	}
	s.mu.Lock()
	for _, t := range s.tasks {
		if t.waitMu == any(m) {
			t.waitMu = nil
		}
	}
	s.mu.Unlock()
}

// Run executes main as task 0 inside a synctest bubble under the scheduler and
// returns when main has returned (remaining tasks are stopped).
func Run(t *testing.T, s *Sched, main func()) {
	s.byG = map[uint64]*task{}
	s.heldBy = map[any]*task{}
	if s.MaxDecisions == 0 {
		s.MaxDecisions = 1000000
	}
	defer func() { cur = nil }()
	defer func() {
		// synctest panics "deadlock: all goroutines in bubble are blocked" when the
		// bubble ends with goroutines still blocked; those are stopped tasks.
		if r := recover(); r != nil {
			msg := fmt.Sprint(r)
			if s.Deadlock == "" && len(s.Panics) == 0 {
				s.Panics = append(s.Panics, "bubble: "+msg)
			}
		}
	}()
	synctest.Test(t, func(t *testing.T) {
		cur = s
		mainDone := false
		Go("main", func() {
			defer func() { mainDone = true }()
			main()
		})
		for {
			synctest.Wait()
			if mainDone || len(s.Panics) > 0 {
				break
			}
			s.mu.Lock()
			var run, drain []*task
			alive := 0
			for _, tk := range s.tasks {
				if tk.done {
					continue
				}
				alive++
				if !tk.parked || tk.waitMu != nil {
					continue
				}
				if tk.drain {
					drain = append(drain, tk)
				} else {
					run = append(run, tk)
				}
			}
			if len(run) == 0 {
				run = drain
			}
			if len(run) == 0 {
				var st []string
				for _, tk := range s.tasks {
					if !tk.done {
						st = append(st, fmt.Sprintf("%d(%s parked=%v site=%d mutex=%v)", tk.id, tk.name, tk.parked, tk.site, tk.waitMu != nil))
					}
				}
				s.Deadlock = fmt.Sprintf("no runnable task, %d alive: %v", alive, st)
				s.mu.Unlock()
				break
			}
			ci := -1
			for i, tk := range run {
				if tk == s.last {
					ci = i
				}
			}
			s.mu.Unlock()
			k := 0
			if len(run) > 1 && s.Choose != nil {
				k = s.Choose(len(run), ci)
				if k < 0 || k >= len(run) {
					k = 0
				}
			} else if ci >= 0 {
				k = ci
			}
			tk := run[k]
			s.Decisions++
			if s.last != nil && s.last != tk {
				s.Switches++
			}
			if s.Trace != nil {
				s.Trace(s.Decisions, tk.id, tk.name, tk.site)
			}
			if s.Decisions > s.MaxDecisions {
				s.Deadlock = fmt.Sprintf("livelock: more than %d scheduling decisions", s.MaxDecisions)
				break
			}
			s.mu.Lock()
			s.last = tk
			tk.parked = false
			tk.drain = false
			s.mu.Unlock()
			atomic.AddInt32(&s.running, 1)
			tk.wake <- struct{}{}
		}
		// stop everything that is still parked so the bubble can end
		s.stop = true
		s.mu.Lock()
		var rest []*task
		for _, tk := range s.tasks {
			if !tk.done && tk.parked {
				rest = append(rest, tk)
			}
		}
		s.mu.Unlock()
		for _, tk := range rest {
			select {
			case tk.wake <- struct{}{}:
			default:
			}
		}
		synctest.Wait()
	})
}
