//go:build go1.21

package verifsim

import (
	"fmt"
	"sync"
	"sync/atomic"
	"unsafe"
)

// ---- cheap yields for long sequential code (C28) ----------------------------
//
// YieldG is placed before statements that touch package-level variables and at
// function entries of the rewritten packages. Exactly one task runs between
// scheduling decisions, so the fast path is a counter increment and a compare
// with the index of the next pre-emption point; only there (or when the task
// is about to block) is the slow path (park, let the scheduler choose) taken.

var gArmed int32 // 1 while a PCT plan is installed

type Plan struct {
	Points []int64 // ascending indices (over all yields) at which the running task is pre-empted
	// PointsW: the same over the "interesting" yields only: statements that write
	// a package-level variable, and the points right before Lock / right after Unlock
	PointsW []int64
	// SitePoints: pre-empt at the k-th execution of an interesting yield site
	SitePoints map[int][]int64
	SiteCount  map[int]int64 // executions per interesting site (filled while running)
	// ReturnAfter: after the i-th site-placed pre-emption, pre-empt again that many
	// yields later (gives the interrupted task a chance to come back while the
	// other one is still in the middle of its work)
	ReturnAfter []int64
	siteHits    int
	pending     []int64
	next        int
	nextW       int
	Count       int64 // yields executed so far (all kinds)
	CountW      int64 // interesting yields executed so far
	Hits        int   // pre-emptions actually taken
	Sites       []int // site ids at the taken pre-emptions
}

var plan *Plan

// InstallPlan arms the yields with a list of pre-emption points.
func InstallPlan(p *Plan) {
	plan = p
	if p != nil {
		atomic.StoreInt32(&gArmed, 1)
	} else {
		atomic.StoreInt32(&gArmed, 0)
	}
}

func YieldG(site int) {
	if atomic.LoadInt32(&gArmed) == 0 {
		return
	}
	p := plan
	if p == nil || cur == nil {
		return
	}
	p.Count++
	hit := false
	if p.next < len(p.Points) && p.Count >= p.Points[p.next] {
		p.next++
		hit = true
	}
	if len(p.pending) > 0 && p.Count >= p.pending[0] {
		p.pending = p.pending[1:]
		hit = true
	}
	if hit {
		p.Hits++
		p.Sites = append(p.Sites, site)
		Yield(site)
	}
}

// YieldW is a yield at an "interesting" point (see Plan.PointsW).
func YieldW(site int) {
	if atomic.LoadInt32(&gArmed) == 0 {
		return
	}
	p := plan
	if p == nil || cur == nil {
		return
	}
	p.Count++
	p.CountW++
	hit := false
	if p.next < len(p.Points) && p.Count >= p.Points[p.next] {
		p.next++
		hit = true
	}
	if p.nextW < len(p.PointsW) && p.CountW >= p.PointsW[p.nextW] {
		p.nextW++
		hit = true
	}
	if p.SiteCount == nil {
		p.SiteCount = map[int]int64{}
	}
	p.SiteCount[site]++
	if ks, ok := p.SitePoints[site]; ok {
		c := p.SiteCount[site]
		for _, k := range ks {
			if k == c {
				hit = true
				if p.siteHits < len(p.ReturnAfter) && p.ReturnAfter[p.siteHits] > 0 {
					p.pending = append(p.pending, p.Count+p.ReturnAfter[p.siteHits])
				}
				p.siteHits++
			}
		}
	}
	if len(p.pending) > 0 && p.Count >= p.pending[0] {
		p.pending = p.pending[1:]
		hit = true
	}
	if hit {
		p.Hits++
		p.Sites = append(p.Sites, site)
		Yield(site)
	}
}

// ---- simulator-aware sync.Once -----------------------------------------------

type onceState struct {
	done    bool
	running *task
}

var onceMu sync.Mutex
var onces = map[*sync.Once]*onceState{}

func OnceDo(o *sync.Once, f func(), site int) {
	s := cur
	if s == nil {
		o.Do(f)
		return
	}
	Yield(site)
	t := s.me()
	for {
		onceMu.Lock()
		st := onces[o]
		if st == nil {
			st = &onceState{}
			onces[o] = st
		}
		if st.done {
			onceMu.Unlock()
			return
		}
		if st.running == nil {
			st.running = t
			onceMu.Unlock()
			hbAcquire(t, o)
			f()
			hbRelease(t, o)
			onceMu.Lock()
			st.done = true
			st.running = nil
			onceMu.Unlock()
			s.mu.Lock()
			for _, x := range s.tasks {
				if x.waitMu == any(o) {
					x.waitMu = nil
				}
			}
			s.mu.Unlock()
			return
		}
		onceMu.Unlock()
		s.mu.Lock()
		t.waitMu = o
		s.mu.Unlock()
		s.park(t, site)
		hbAcquire(t, o)
	}
}

// ---- happens-before map-race monitor ------------------------------------------
//
// Serialising tasks hides the failure that kills a real process: the Go
// runtime's "fatal error: concurrent map writes / read and map write". Every
// map access in rewritten code reports (task, map identity, read|write); two
// accesses to one map by different tasks, at least one a write, that are not
// ordered by happens-before (task creation, intercepted Lock/Unlock, Once) are
// a race that real threads can hit.

type vclock []uint32

func (a vclock) leq(b vclock) bool {
	for i, x := range a {
		if x == 0 {
			continue
		}
		if i >= len(b) || x > b[i] {
			return false
		}
	}
	return true
}

func (a vclock) join(b vclock) vclock {
	if len(b) > len(a) {
		a = append(a, make(vclock, len(b)-len(a))...)
	}
	for i, x := range b {
		if x > a[i] {
			a[i] = x
		}
	}
	return a
}

func (a vclock) copy() vclock { return append(vclock(nil), a...) }

type access struct {
	task int
	site int
	vc   vclock
}

type mapShadow struct {
	keep   any // strong reference: the address is never recycled while we hold it
	owner  int // the only task that has touched it so far (-1: shared)
	lastW  *access
	reads  []access
	firstR int
	firstW int
}

type Race struct {
	Kind   string // "write/write" or "read/write"
	SiteA  int
	SiteB  int
	TaskA  int
	TaskB  int
	Detail string
}

var Mon struct {
	On     bool
	mu     sync.Mutex
	maps   map[uintptr]*mapShadow
	clocks map[int]vclock // per task
	locks  map[any]vclock
	Races  []Race
	seen   map[[2]int]bool
	Access int64
	Shared int64
}

func MonReset(on bool) {
	Mon.mu.Lock()
	Mon.On = on
	Mon.maps = map[uintptr]*mapShadow{}
	Mon.clocks = map[int]vclock{}
	Mon.locks = map[any]vclock{}
	Mon.Races = nil
	Mon.seen = map[[2]int]bool{}
	Mon.Access, Mon.Shared = 0, 0
	Mon.mu.Unlock()
}

func clockOf(id int) vclock {
	c := Mon.clocks[id]
	if len(c) <= id {
		c = append(c, make(vclock, id+1-len(c))...)
	}
	if c[id] == 0 {
		c[id] = 1
	}
	Mon.clocks[id] = c
	return c
}

// hbFork: child starts with the parent's clock.
func hbFork(parent, child int) {
	if !Mon.On {
		return
	}
	Mon.mu.Lock()
	pc := clockOf(parent)
	cc := clockOf(child).join(pc)
	Mon.clocks[child] = cc
	pc[parent]++
	Mon.mu.Unlock()
}

func hbAcquire(t *task, obj any) {
	if !Mon.On {
		return
	}
	Mon.mu.Lock()
	if lc, ok := Mon.locks[obj]; ok {
		Mon.clocks[t.id] = clockOf(t.id).join(lc)
	}
	Mon.mu.Unlock()
}

func hbRelease(t *task, obj any) {
	if !Mon.On {
		return
	}
	Mon.mu.Lock()
	c := clockOf(t.id)
	Mon.locks[obj] = c.copy()
	c[t.id]++
	Mon.mu.Unlock()
}

func mapPtr[K comparable, V any](m map[K]V) uintptr {
	return *(*uintptr)(unsafe.Pointer(&m))
}

func noteMap(p uintptr, keep any, site int, write bool) {
	s := cur
	if s == nil || !Mon.On || p == 0 {
		return
	}
	t := s.me()
	Mon.mu.Lock()
	defer Mon.mu.Unlock()
	Mon.Access++
	sh := Mon.maps[p]
	if sh == nil {
		sh = &mapShadow{keep: keep, owner: t.id, firstR: -1, firstW: -1}
		Mon.maps[p] = sh
	}
	if sh.owner == t.id {
		// exclusive so far: remember only the latest access of each kind
		a := access{t.id, site, nil}
		if write {
			sh.lastW = &a
		} else if len(sh.reads) == 0 {
			sh.reads = []access{a}
		} else {
			sh.reads[0] = a
		}
		return
	}
	if sh.owner >= 0 {
		// second task arrives: the previous owner's accesses get its current clock
		// (conservative: they happened no later than now)
		oc := clockOf(sh.owner).copy()
		if sh.lastW != nil {
			sh.lastW.vc = oc
		}
		for i := range sh.reads {
			sh.reads[i].vc = oc
		}
		sh.owner = -1
		Mon.Shared++
	}
	c := clockOf(t.id)
	report := func(kind string, prev access) {
		key := [2]int{prev.site, site}
		if Mon.seen[key] || prev.task == t.id {
			return
		}
		Mon.seen[key] = true
		Mon.Races = append(Mon.Races, Race{Kind: kind, SiteA: prev.site, SiteB: site, TaskA: prev.task, TaskB: t.id,
			Detail: fmt.Sprintf("%s on one map: task %d at site %d and task %d at site %d, not ordered by happens-before", kind, prev.task, prev.site, t.id, site)})
	}
	if sh.lastW != nil && sh.lastW.task != t.id && !sh.lastW.vc.leq(c) {
		if write {
			report("write/write", *sh.lastW)
		} else {
			report("read/write", *sh.lastW)
		}
	}
	if write {
		for _, r := range sh.reads {
			if r.task != t.id && !r.vc.leq(c) {
				report("read/write", r)
			}
		}
		sh.lastW = &access{t.id, site, c.copy()}
		sh.reads = sh.reads[:0]
	} else {
		kept := sh.reads[:0]
		for _, r := range sh.reads {
			if r.task != t.id {
				kept = append(kept, r)
			}
		}
		sh.reads = append(kept, access{t.id, site, c.copy()})
	}
}

// MapR / MapW wrap a map expression at a read / write site.
func MapR[K comparable, V any](m map[K]V, site int) map[K]V {
	if Mon.On {
		noteMap(mapPtr(m), m, site, false)
	}
	return m
}

func MapW[K comparable, V any](m map[K]V, site int) map[K]V {
	if Mon.On {
		noteMap(mapPtr(m), m, site, true)
	}
	return m
}

// After is a yield at an interesting point placed between an inner call that
// received package-level storage by reference and the call that consumes its
// result: outer(After(inner(g[:0], v), site)).
func After[T any](v T, site int) T {
	YieldW(site)
	return v
}
