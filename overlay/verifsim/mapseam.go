//go:build go1.21

// Package verifsim is the run-time side of the source-to-source seams the
// verification harness inserts into copies of repository files (injected with
// go build -overlay; not part of the repository).
package verifsim

import (
	"reflect"
	"sort"
	"sync"
)

// MapPerm decides the order in which a rewritten `range` over a map yields its
// keys: it receives the site id and the number of keys and returns a
// permutation of [0,n) applied to the canonical order (nil = canonical order).
var MapPerm func(site int, n int) []int

// MapStats counts what the seam saw.
var MapStats struct {
	Ranges        int64 // executed range statements
	MultiKey      int64 // ... over maps with >= 2 keys
	Perturbed     int64 // ... whose order was changed
	NonReplayable int64 // keys that reached Keys without a serial
	SiteSeen      map[int]int64
	SiteMulti     map[int]int64
}

var mu sync.Mutex
var serials = map[any]uint64{}
var nextSerial uint64

func serialOf(k any, fromRange bool) uint64 {
	s, ok := serials[k]
	if !ok {
		nextSerial++
		s = nextSerial
		serials[k] = s
		if fromRange {
			MapStats.NonReplayable++
		}
	}
	return s
}

// K registers a map key of a non-sortable kind at the moment it is stored, so
// that "first stored first" gives a canonical order that does not depend on
// addresses.
func K[T comparable](k T) T {
	mu.Lock()
	serialOf(any(k), false)
	mu.Unlock()
	return k
}

// ResetSerials forgets all serial numbers (between independent compilations in
// one process, so that the second compile starts from the same state).
func ResetSerials() {
	mu.Lock()
	serials = map[any]uint64{}
	nextSerial = 0
	mu.Unlock()
}

func Zero1[K comparable, V any](m map[K]V) (k K)      { return }
func ZeroV[K comparable, V any](m map[K]V) (v V)      { return }
func Zero2[K comparable, V any](m map[K]V) (k K, v V) { return }

type sortKey struct {
	kind int // 0 string 1 int 2 uint 3 float 4 bool 5 serial
	s    string
	i    int64
	u    uint64
	f    float64
}

func keyOf(k any) sortKey {
	v := reflect.ValueOf(k)
	switch v.Kind() {
	case reflect.String:
		return sortKey{kind: 0, s: v.String()}
	case reflect.Int, reflect.Int8, reflect.Int16, reflect.Int32, reflect.Int64:
		return sortKey{kind: 1, i: v.Int()}
	case reflect.Uint, reflect.Uint8, reflect.Uint16, reflect.Uint32, reflect.Uint64, reflect.Uintptr:
		return sortKey{kind: 2, u: v.Uint()}
	case reflect.Float32, reflect.Float64:
		return sortKey{kind: 3, f: v.Float()}
	case reflect.Bool:
		if v.Bool() {
			return sortKey{kind: 4, i: 1}
		}
		return sortKey{kind: 4}
	}
	return sortKey{kind: 5, u: serialOf(k, true)}
}

func less(a, b sortKey) bool {
	if a.kind != b.kind {
		return a.kind < b.kind
	}
	switch a.kind {
	case 0:
		return a.s < b.s
	case 1, 4:
		return a.i < b.i
	case 2, 5:
		return a.u < b.u
	default:
		return a.f < b.f
	}
}

// Keys returns the keys of m in canonical order (sorted for basic kinds, by
// first-store serial otherwise) transformed by the schedule's permutation.
func Keys[K comparable, V any](site int, m map[K]V) []K {
	n := len(m)
	mu.Lock()
	defer mu.Unlock()
	MapStats.Ranges++
	if MapStats.SiteSeen == nil {
		MapStats.SiteSeen = map[int]int64{}
		MapStats.SiteMulti = map[int]int64{}
	}
	MapStats.SiteSeen[site]++
	if n == 0 {
		return nil
	}
	keys := make([]K, 0, n)
	sk := make([]sortKey, 0, n)
	for k := range m {
		keys = append(keys, k)
		sk = append(sk, keyOf(any(k)))
	}
	idx := make([]int, n)
	for i := range idx {
		idx[i] = i
	}
	sort.Slice(idx, func(a, b int) bool { return less(sk[idx[a]], sk[idx[b]]) })
	out := make([]K, n)
	for i, j := range idx {
		out[i] = keys[j]
	}
	if n >= 2 {
		MapStats.MultiKey++
		MapStats.SiteMulti[site]++
		if MapPerm != nil {
			if p := MapPerm(site, n); p != nil {
				perm := make([]K, n)
				changed := false
				for i, j := range p {
					perm[i] = out[j]
					if i != j {
						changed = true
					}
				}
				if changed {
					MapStats.Perturbed++
				}
				out = perm
			}
		}
	}
	return out
}
