package wazero

import (
	"context"
	"crypto/rand"
	"os"

	"wa-lang.org/wa/internal/3rdparty/wazero"
	"wa-lang.org/wa/internal/config"
	"wa-lang.org/wa/internal/token"
)

// VerifBuildModule is BuildModule with one extra step: addHost may install
// additional host modules into the runtime before the program is instantiated
// (verification harness accessor, injected with go build -overlay; not part of
// the repository). The host modules the program's target needs (syscall_js,
// unknown, ...) are installed exactly as buildModule installs them.
func VerifBuildModule(wasmName string, wasmBytes, fsetBytes []byte, addHost func(ctx context.Context, rt wazero.Runtime) error) (*Module, error) {
	p := &Module{wasmName: wasmName, wasmBytes: wasmBytes, fsetBytes: fsetBytes}
	p.wazeroCtx = context.Background()
	p.fset = token.NewFileSet()
	if len(p.fsetBytes) > 0 {
		if err := p.fset.FromJson(p.fsetBytes); err != nil {
			return nil, err
		}
	}
	p.wazeroConf = wazero.NewModuleConfig().
		WithStdout(&p.stdoutBuffer).
		WithStderr(&p.stderrBuffer).
		WithStdin(os.Stdin).
		WithRandSource(rand.Reader).
		WithSysNanosleep().
		WithSysNanotime().
		WithSysWalltime().
		WithArgs(p.wasmName).
		WithName(p.wasmName)
	p.wazeroRuntime = wazero.NewRuntime(p.wazeroCtx)
	var err error
	p.wazeroCompileModule, err = p.wazeroRuntime.CompileModule(p.wazeroCtx, p.wasmBytes)
	if err != nil {
		p.wazeroInitErr = err
		return nil, err
	}
	waOS := config.WaOS_unknown
	for _, f := range p.wazeroCompileModule.ImportedFunctions() {
		moduleName, funcName, isImport := f.Import()
		if !isImport {
			continue
		}
		if moduleName == "syscall_js" {
			waOS = config.WaOS_js
			break
		}
		if moduleName == "arduino" {
			waOS = config.WaOS_arduino
			break
		}
		if moduleName == "env" && funcName == "blitSub" {
			waOS = config.WaOS_wasm4
			break
		}
	}
	switch waOS {
	case config.WaOS_unknown:
		_, err = UnknownInstantiate(p.wazeroCtx, p.wazeroRuntime)
	case config.WaOS_js:
		_, err = p.JsInstantiate(p.wazeroCtx, p.wazeroRuntime)
	case config.WaOS_arduino:
		_, err = ArduinoInstantiate(p.wazeroCtx, p.wazeroRuntime)
	}
	if err != nil {
		return nil, err
	}
	if addHost != nil {
		if err := addHost(p.wazeroCtx, p.wazeroRuntime); err != nil {
			return nil, err
		}
	}
	return p, nil
}

// VerifReset closes the current instance (if any) so that the next RunFunc
// instantiates a fresh one, and installs the context host functions will see.
func (p *Module) VerifReset(ctx context.Context) {
	if p.wazeroModule != nil {
		p.wazeroModule.Close(p.wazeroCtx)
		p.wazeroModule = nil
	}
	p.wazeroInitErr = nil
	p.wazeroCtx = ctx
	p.stdoutBuffer.Reset()
	p.stderrBuffer.Reset()
}

// VerifMemory returns a view of the instance's linear memory.
func (p *Module) VerifMemory() []byte {
	if p.wazeroModule == nil {
		return nil
	}
	mem := p.wazeroModule.Memory()
	b, _ := mem.Read(p.wazeroCtx, 0, mem.Size(p.wazeroCtx))
	return b
}
