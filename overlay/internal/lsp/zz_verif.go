package lsp

import (
	"io"
	"log"

	"wa-lang.org/wa/internal/lsp/fakenet"
	"wa-lang.org/wa/internal/lsp/jsonrpc2"
	"wa-lang.org/wa/internal/lsp/protocol"
)

// NewVerifServer is NewLSPServer with the transport given by the caller
// instead of os.Stdin/os.Stdout (verification harness accessor, injected with
// go build -overlay; not part of the repository). Everything else - header
// stream, fakenet connection with its feeder goroutines, jsonrpc2 connection,
// client dispatcher - is built exactly as NewLSPServer builds it.
func NewVerifServer(in io.ReadCloser, out io.WriteCloser) *LSPServer {
	p := &LSPServer{
		waModules: make(map[protocol.DocumentURI]*WaModule),
		fileMap:   make(map[string]string),
	}
	p.logger = log.New(io.Discard, "", 0)
	p.syncFile = &SyncFile{}
	stream := jsonrpc2.NewHeaderStream(fakenet.NewConn("stdio", in, out))
	p.conn = jsonrpc2.NewConn(stream)
	p.client = protocol.ClientDispatcher(p.conn)
	return p
}

// VerifText returns the server's copy of a document.
func (p *LSPServer) VerifText(path string) (string, bool) {
	s, ok := p.fileMap[path]
	return s, ok
}
