package malloc

// VerifWat returns the embedded allocator template (verification harness
// accessor, injected with go build -overlay; not part of the repository).
func VerifWat() string { return malloc_wat }
