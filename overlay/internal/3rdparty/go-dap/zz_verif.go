package dap

// VerifCtors exposes the codec's constructor tables to the verification
// harness (injected with go build -overlay; not part of the repository).
func VerifCtors() (req, resp, ev map[string]func() Message) {
	req, resp, ev = map[string]func() Message{}, map[string]func() Message{}, map[string]func() Message{}
	for k, v := range requestCtor {
		req[k] = v
	}
	for k, v := range responseCtor {
		resp[k] = v
	}
	for k, v := range eventCtor {
		ev[k] = v
	}
	return
}
