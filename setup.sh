#!/bin/bash
# Builds the coordinator (and, later, simrewrite) offline from /verif/harness.
set -eu
cd "$(dirname "$(readlink -f "$0")")/harness"
export GOFLAGS=-mod=mod GOPROXY=off GOSUMDB=off GOTOOLCHAIN=local CGO_ENABLED=0
export PATH=$PATH:/usr/local/bin:/usr/local/go/bin
mkdir -p ../bin ../evidence ../replays
go1.26.8 build -o ../bin/vcheck ./cmd/vcheck
if [ -d cmd/simrewrite ]; then go1.26.8 build -o ../bin/simrewrite ./cmd/simrewrite; fi
