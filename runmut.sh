#!/bin/bash
# runmut.sh <patch> <prop> [tier]: apply a seeded change to /repo, run the check, undo.
set -u
patch=$1; prop=$2; tier=${3:-quick}
cd /repo && git status --short | grep -q . && { echo "repo not clean"; exit 2; }
git apply "$patch" || exit 2
cd /verif && ./vcheck.sh $prop $tier 2>&1 | grep -v "^VIOLATION" | tail -2; rc=${PIPESTATUS[0]}
cd /repo && git checkout -- . && git status --short
echo "check exit code: $rc"
