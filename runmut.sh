#!/bin/bash
# runmut.sh <patch> <prop> [tier]: run a check against a seeded change WITHOUT touching /repo:
# a scratch worktree under /tmp gets the patch, the check runs against it (VERIF_REPO), the
# worktree is removed. Evidence/replays written describe the broken tree: re-run the check on
# the clean tree before committing evidence.
set -u
patch=$(readlink -f "$1"); prop=$2; tier=${3:-quick}
cd "$(dirname "$(readlink -f "$0")")"
wt=$(mktemp -d /tmp/verif-mut.XXXXXX); rmdir $wt
git -C /repo worktree add --detach $wt HEAD -q || exit 2
git -C $wt apply "$patch" || { git -C /repo worktree remove --force $wt; exit 2; }
VERIF_REPO=$wt ./vcheck.sh $prop $tier 2>&1 | grep -v "^VIOLATION" | tail -2; rc=${PIPESTATUS[0]}
git -C /repo worktree remove --force $wt; git -C /repo worktree prune
echo "check exit code: $rc"
